/-
  MODEL of src/series/data.rs: the `Data` struct (one data file + its index),
  `Data::new`, `Data::open_existing`, `push_data`, `last_line`, `len`, reads.
  Files are whole-file byte strings (header included), as on disk.
-/
import BS.Impl.Reader
import BS.Impl.Repair
import BS.Impl.Index
import BS.Impl.Seek
import BS.Impl.Header

namespace BS.Impl

/-- the files of one `Data` on disk: `<name>.byteseries`, `.byteseries_index`, `.byteseries_index.part` -/
structure Store where
  data : Option Bytes := none
  index : Option Bytes := none
  part : Option Bytes := none
deriving Repr, DecidableEq, Inhabited

/-- the `Data` struct in memory -/
structure DataSess where
  p : Nat
  hdrLen : Nat                 -- `OffsetFile.offset` of the data file
  ihdrLen : Nat                -- same for the index file
  dataLen : Nat
  entries : List IEntry
  lastFull : Option Nat        -- `index.last_timestamp`
  lastTime : Option Nat
deriving Repr, DecidableEq, Inhabited

def DataSess.view (d : DataSess) : DataView :=
  { p := d.p, dataLen := d.dataLen, entries := d.entries, lastFull := d.lastFull, lastTime := d.lastTime }

def Store.region (st : Store) (hdrLen : Nat) : Bytes :=
  match st.data with
  | some f => f.drop hdrLen
  | none => []

def wrapErr (top : String) : Fault → Fault
  | .panic => .panic
  | .err c => .err (top ++ "/" ++ c)

/-- `Data::new` (after the fix: a failing `Index::new` removes the data file again) -/
def dataNew (st : Store) (p : Nat) (header : Bytes) : Store × R DataSess :=
  match fileNew st.data header with
  | .error f => (st, .error f)
  | .ok (file, off) =>
    match fileNew st.index [] with
    | .error f => (st, .error f)
    | .ok (ifile, ioff) =>
      ({ st with data := some file, index := some ifile },
       .ok { p := p, hdrLen := off, ihdrLen := ioff, dataLen := 0, entries := [], lastFull := none, lastTime := none })

def appendTo (f : Option Bytes) (b : Bytes) : Option Bytes :=
  match f with
  | some x => some (x ++ b)
  | none => none

/-- `Data::push_data` -/
def pushData (st : Store) (d : DataSess) (ts : Nat) (line : Bytes) : R (Store × DataSess) :=
  let newSection : R (Store × DataSess) :=
    let e : IEntry := ⟨ts, d.dataLen⟩
    let st1 := { st with index := appendTo st.index (encIEntry e) }
    let st2 := { st1 with data := appendTo st1.data (metaWrite d.p ts ++ le2 0 ++ line.take d.p) }
    .ok (st2, { d with entries := d.entries ++ [e], lastFull := some ts,
                       dataLen := d.dataLen + metaSize d.p + lineSize d.p, lastTime := some ts })
  match d.lastFull with
  | none => newSection
  | some lf =>
    if ts < lf then .error (.err "OutOfOrder")
    else if ts - lf > maxSmallTs then newSection
    else
      .ok ({ st with data := appendTo st.data (le2 (ts - lf) ++ line.take d.p) },
           { d with dataLen := d.dataLen + lineSize d.p, lastTime := some ts })

/-- free function `last_line` of data.rs: read `[data_len - line_size, data_len)` -/
def lastLineOf (region : Bytes) (d : DataSess) (cb : Option Bool) : R Entry :=
  match d.lastFull with
  | none => .error (.err "NoData")
  | some lf =>
    if d.dataLen < lineSize d.p then .error .panic
    else
      match readRegion d.p cb collectProc {} region (d.dataLen - lineSize d.p) d.dataLen lf with
      | .ok c =>
        match c.out.getLast? with
        | some e => .ok e
        | none => .error (.err "NoData")
      | .error (.corrupt _) => .error (.err "CorruptMetaSection")
      | .error .panic => .error .panic
      | .error (.halted _) => .error .panic

/-- `Index::create_from_byteseries` (after the fix: a stale `.part` is removed first) -/
def rebuildIndex (st : Store) (p : Nat) (region : Bytes) : Store × List IEntry × Nat :=
  let entries := extractEntries p region
  let hdr : Bytes := leN 2 0 ++ Gen.lineEnds
  let file := hdr ++ (entries.map encIEntry).flatten
  ({ st with index := some file, part := none }, entries, 4)

/-- the fallback of `Data::open_existing`: rebuild the index from the data -/
def viaRebuild (st : Store) (p off : Nat) (region : Bytes) : Store × R DataSess :=
  let r := rebuildIndex st p region
  (r.1, .ok { p := p, hdrLen := off, ihdrLen := r.2.2, dataLen := region.length, entries := r.2.1,
              lastFull := r.2.1.getLast?.map (·.ts), lastTime := none })

/-- the index half of `Data::open_existing`: `Index::open_existing` with its
`check_and_repair`, falling back to `Index::create_from_byteseries` -/
def indexOpen (st : Store) (p off : Nat) (region : Bytes) (lastFullInData : Option Nat) : Store × R DataSess :=
  let dataLen := region.length
  let lastLineStart := if dataLen ≥ lineSize p then some (dataLen - lineSize p) else none
  match fileOpenExisting st.index with
  | .error _ => viaRebuild st p off region
  | .ok (ioff, _) =>
    match st.index with
    | none => viaRebuild st p off region
    | some ifile =>
      match indexCheck ioff (ifile.drop ioff) lastLineStart lastFullInData with
      | .error f => (st, .error f)
      | .ok chk =>
        let st := { st with index := some (ifile.take ioff ++ chk.region) }
        if chk.ok then
          let entries := parseIndex chk.region
          (st, .ok { p := p, hdrLen := off, ihdrLen := ioff, dataLen := dataLen, entries := entries,
                     lastFull := entries.getLast?.map (·.ts), lastTime := none })
        else viaRebuild st p off region

/-- `Data::open_existing`, given the already opened data file (`off` = its header length) -/
def dataOpenExisting (st : Store) (p off : Nat) (cb : Option Bool) : Store × R DataSess :=
  match st.data with
  | none => (st, .error (.err "NotFound"))
  | some file =>
    let region := repairData p (file.drop off)
    let st := { st with data := some (file.take off ++ region) }
    match lastMetaTs p region with
    | .error f => (st, .error f)
    | .ok lastFullInData =>
      match indexOpen st p off region lastFullInData with
      | (st, .error f) => (st, .error f)
      | (st, .ok d) =>
        match lastLineOf region d cb with
        | .ok e => (st, .ok { d with lastTime := some e.ts })
        | .error (.err "NoData") => (st, .ok { d with lastTime := none })
        | .error f => (st, .error f)

/-- `Data::len` -/
def dataLenLines (d : DataSess) : R Nat :=
  let lines := d.dataLen / lineSize d.p
  let metaLines := d.entries.length * lpm d.p
  if lines < metaLines then .error .panic else .ok (lines - metaLines)

/-- map the reader's way of stopping to the API's error (`ReadError`) -/
def readErr {σ : Type} : Stop σ → Fault
  | .corrupt _ => .err "CorruptMetaSection"
  | .panic => .panic
  | .halted _ => .panic

/-- `Data::read_all` -/
def dataReadAll (region : Bytes) (d : DataSess) (cb : Option Bool) (pos : Pos) : R (List Entry) :=
  match readRegion d.p cb collectProc {} region pos.start pos.stop pos.firstFull with
  | .ok c => .ok c.out
  | .error e => .error (readErr e)

/-- `Data::read_first_n` -/
def dataReadFirstN (region : Bytes) (d : DataSess) (cb : Option Bool) (n : Nat) (pos : Pos) : R (List Entry) :=
  match readRegion d.p cb firstNProc { n := n } region pos.start pos.stop pos.firstFull with
  | .ok c => .ok c.out
  | .error (.halted c) => .ok c.out
  | .error (.corrupt _) => .error (.err "CorruptMetaSection")
  | .error .panic => .error .panic

/-- `Data::read_resampling` with the harness's integer resampler -/
def dataReadResampling (region : Bytes) (d : DataSess) (cb : Option Bool) (bucket : Nat) (pos : Pos) : R (List Entry) :=
  if bucket = 0 then .error .panic                              -- `assert!(bucket_size > 0)`
  else
    match readRegion d.p cb samplerProc { bucket := bucket, p := d.p } region pos.start pos.stop pos.firstFull with
    | .ok c => .ok c.out
    | .error e => .error (readErr e)

end BS.Impl
