/-
  MODEL of the public API (src/series.rs, src/builder.rs) as a state machine over a
  directory of files and an optional open session: `step : World → Op → World × String`.
  The string is the canonical observation line, in exactly the format `bsrun` prints
  for the real library.
-/
import BS.Impl.Data
import BS.Impl.Fast

namespace BS.Impl

inductive Role where
  | data | index | part
  | cdata (B : Nat) | cindex (B : Nat) | cpart (B : Nat)
deriving Repr, DecidableEq, Inhabited

inductive Op where
  | new (p : Nat) (hdr : Option Bytes) (caches : List Nat)
  | open (p : Option Nat) (hdr : Option Bytes) (caches : List Nat) (cb : Option Bool) (ext : Bool)
  | close
  | push (ts : Nat) (pl : Bytes)
  | pushrun (ts0 step count seed : Nat)
  | readAll (s e : Bound)
  | readFirstN (n : Nat) (s e : Bound)
  | readN (n : Nat) (s e : Bound)
  | nLines (s e : Bound)
  | lastLine | len | isEmpty | range | payloadSize
  | flush                                   -- `flush_to_disk`: asks the OS to write its buffers, changes no byte
  | page (n : Nat)
  | files
  | cut (r : Role) (len : Nat)
  | rm (r : Role)
  | put (r : Role) (b : Bytes)
  | damage (r : Role) (off : Nat) (b : Bytes)
  | get (r : Role)
  | save (k : Nat)
  | restore (k : Nat)
  | bad
deriving Repr, Inhabited

/-- one downsample cache in memory (`DownSampledData`) with the harness's `Lin` resampler -/
structure CacheSess where
  B : Nat
  d : DataSess
  inBin : Nat := 0
  tsSum : Nat := 0
  vSum : Nat := 0
  /-- `lines_to_skip`: source lines the last cached bucket already accounts for -/
  skip : Nat := 0
deriving Repr, DecidableEq, Inhabited

/-- `ByteSeries` in memory -/
structure Sess where
  d : DataSess
  range : Option (Nat × Nat)
  caches : List CacheSess
  cb : Option Bool
deriving Repr, DecidableEq, Inhabited

structure Dir where
  main : Store := {}
  caches : List (Nat × Store) := []
deriving Repr, DecidableEq, Inhabited

structure World where
  dir : Dir := {}
  sess : Option Sess := none
  snaps : List (Nat × Dir) := []
deriving Inhabited

def Dir.cache (d : Dir) (B : Nat) : Store :=
  match d.caches.find? (·.1 == B) with
  | some (_, s) => s
  | none => {}

def Dir.setCache (d : Dir) (B : Nat) (s : Store) : Dir :=
  if d.caches.any (·.1 == B) then
    { d with caches := d.caches.map fun (b, x) => if b == B then (b, s) else (b, x) }
  else { d with caches := d.caches ++ [(B, s)] }

def Dir.getRole (d : Dir) : Role → Option Bytes
  | .data => d.main.data
  | .index => d.main.index
  | .part => d.main.part
  | .cdata B => (d.cache B).data
  | .cindex B => (d.cache B).index
  | .cpart B => (d.cache B).part

def Dir.setRole (d : Dir) (r : Role) (v : Option Bytes) : Dir :=
  match r with
  | .data => { d with main := { d.main with data := v } }
  | .index => { d with main := { d.main with index := v } }
  | .part => { d with main := { d.main with part := v } }
  | .cdata B => d.setCache B { d.cache B with data := v }
  | .cindex B => d.setCache B { d.cache B with index := v }
  | .cpart B => d.setCache B { d.cache B with part := v }

/-! ### formatting (identical to bsrun) -/

def hexDigit (n : Nat) : Char :=
  if n < 10 then Char.ofNat (48 + n) else Char.ofNat (87 + n)

def hexOf (b : Bytes) : String :=
  if b.isEmpty then "-"
  else String.ofList (b.flatMap fun x => [hexDigit (x.toNat / 16), hexDigit (x.toNat % 16)])

def fnv (b : Bytes) : UInt64 :=
  b.foldl (fun h x => (h ^^^ x.toUInt64) * 0x100000001b3) 0xcbf29ce484222325

def hex16 (v : UInt64) : String :=
  String.ofList ((List.range 16).map fun i => hexDigit ((v.toNat >>> (4 * (15 - i))) % 16))

def fmtEntries (es : List Entry) : String :=
  if es.isEmpty then "ok -"
  else "ok " ++ ",".intercalate (es.map fun e => toString e.ts ++ ":" ++ hexOf e.pl)

def fmtFault : Fault → String
  | .panic => "panic"
  | .err c => "err " ++ c

def roleName : Role → String
  | .data => "data" | .index => "index" | .part => "part"
  | .cdata B => s!"c{B}" | .cindex B => s!"c{B}i" | .cpart B => s!"c{B}p"

def fmtFiles (d : Dir) : String :=
  let one (r : Role) : List (String × String) :=
    match d.getRole r with
    | some b => [(roleName r, s!"{b.length}:{hex16 (fnv b)}")]
    | none => []
  let roles : List Role := [.data, .index, .part] ++
    d.caches.flatMap fun (B, _) => [.cdata B, .cindex B, .cpart B]
  let items := (roles.flatMap one).toArray.qsort (fun a b => a.1 < b.1) |>.toList
  "ok" ++ String.join (items.map fun (r, v) => " " ++ r ++ "=" ++ v)

/-- payload bytes of `pushrun` (same LCG as bsrun) -/
def lcgBytes (n : Nat) (state : UInt64) : Bytes × UInt64 :=
  go n state []
where
  go : Nat → UInt64 → Bytes → Bytes × UInt64
    | 0, s, acc => (acc.reverse, s)
    | k+1, s, acc =>
      let s' := s * 6364136223846793005 + 1442695040888963407
      go k s' ((s' >>> 33).toUInt8 :: acc)

/-! ### the API -/

/-- `TimeRange::update` -/
def rangeUpdate (r : Option (Nat × Nat)) (ts : Nat) : R (Option (Nat × Nat)) :=
  match r with
  | some (a, b) => if b ≥ ts then .error (.err "TimeNotAfterLast/TimeNotAfterLast") else .ok (some (a, ts))
  | none => .ok (some (ts, ts))

/-- `DownSampledData::process` for the `Lin` resampler (timestamp sum u128 after the fix) -/
def cacheProcess (st : Store) (c : CacheSess) (ts : Nat) (line : Bytes) : R (Store × CacheSess) :=
  if c.skip > 0 then .ok (st, { c with skip := c.skip - 1 }) else
  let v := c.vSum + linDecode line
  if v ≥ 2^64 then .error .panic
  else
    let c1 := { c with vSum := v, tsSum := c.tsSum + ts, inBin := c.inBin + 1 }
    if c1.inBin ≥ c1.B then
      if c1.B = 0 then .error .panic
      else
        let item := c1.vSum / c1.B
        let rts := c1.tsSum / c1.B
        if rts > ts then .error .panic                                  -- the `assert!`
        else
          match pushData st c1.d rts (linEncode c1.d.p item) with
          | .error f => .error f
          | .ok (st', d') => .ok (st', { c1 with d := d', inBin := 0, tsSum := 0, vSum := 0 })
    else .ok (st, c1)

/-- `ByteSeries::push_line`; the directory changes even when a later stage fails -/
def pushLine (dir : Dir) (s : Sess) (ts : Nat) (pl : Bytes) : Dir × R Sess :=
  if pl.length ≠ s.d.p then (dir, .error (.err "WrongLineLength/WrongLineLength"))
  else
    match rangeUpdate s.range ts with
    | .error f => (dir, .error f)
    | .ok range' =>
      match pushData dir.main s.d ts pl with
      | .error f => (dir, .error (wrapErr "Pushing" f))
      | .ok (main', d') =>
        let dir := { dir with main := main' }
        let rec go (dir : Dir) (done : List CacheSess) : List CacheSess → Dir × R (List CacheSess)
          | [] => (dir, .ok done.reverse)
          | c :: cs =>
            match cacheProcess (dir.cache c.B) c ts pl with
            | .error f => (dir, .error (wrapErr "Downampling" f))
            | .ok (st', c') => go (dir.setCache c.B st') (c' :: done) cs
        match go dir [] s.caches with
        | (dir, .error f) => (dir, .error f)
        | (dir, .ok caches') => (dir, .ok { s with d := d', range := range', caches := caches' })

/-- user header of a cache file (`Config::header`) -/
def cacheUserHeader (B : Nat) : Bytes :=
  Gen.cacheHdrPre ++ "s".toUTF8.toList ++ Gen.cacheHdrMid ++
    "Config { max_gap: None, bucket_size: ".toUTF8.toList ++ natDigits B ++ " }".toUTF8.toList ++
    Gen.cacheHdrPost

/-- processor of `DownSampledData::create`: feed every source line through `process` -/
structure CreateSt where
  st : Store
  c : CacheSess
  prev : Nat := 0
  failed : Option Fault := none

def createProc (s : CreateSt) (ts : Nat) (pl : Bytes) : PRes CreateSt :=
  if ¬ (ts > s.prev ∨ s.prev = 0) then .fault
  else
    match cacheProcess s.st s.c ts pl with
    | .ok (st', c') => .cont { s with st := st', c := c', prev := ts }
    | .error .panic => .fault
    | .error f => .halt { s with failed := some f }

/-- replay source lines `[start, stop)` of `region` through a cache's `process` -/
def feedCache (region : Bytes) (src : DataSess) (cb : Option Bool) (st : Store) (c : CacheSess)
    (start stop full : Nat) : Store × R CacheSess :=
  match readRegion src.p cb createProc { st := st, c := c } region start stop full with
  | .ok s => (s.st, .ok s.c)
  | .error (.halted s) => (s.st, .error (match s.failed with | some f => wrapErr "WriteOut" f | none => .panic))
  | .error (.corrupt s) => (s.st, .error (.err "CorruptMetaSection"))      -- what was written stays written
  | .error .panic => (st, .error .panic)

/-- `DownSampledData::create` -/
def cacheCreate (dir : Dir) (B : Nat) (src : DataSess) (cb : Option Bool) : Dir × R CacheSess :=
  let (st, rd) := dataNew (dir.cache B) src.p (cacheUserHeader B)
  let dir := dir.setCache B st
  match rd with
  | .error f => (dir, .error f)
  | .ok d =>
    let c : CacheSess := { B := B, d := d }
    match src.entries.head? with
    | none => (dir, .ok c)
    | some first =>
      let region := dir.main.region src.hdrLen
      let (st', rc) := feedCache region src cb st c (lineStart src.p 0) src.dataLen first.ts
      (dir.setCache B st', rc)

/-- byte offset and section timestamp of the source line number `k` (0-based), from
the index: used by the cache catch-up on open (after the fix) -/
def lineOffset (d : DataSess) (k : Nat) : Option (Nat × Nat) :=
  let ls := lineSize d.p
  -- data lines stored before section i: off_i / ls - i * lpm
  let rec go (i : Nat) (best : Option (Nat × Nat)) : List IEntry → Option (Nat × Nat)
    | [] => best
    | e :: es =>
      let before := e.off / ls - i * lpm d.p
      if before ≤ k then go (i + 1) (some (e.off + metaSize d.p + (k - before) * ls, e.ts)) es
      else best
  go 0 none d.entries

/-- `Option` order of two `last_time`s (`None < Some`): is the cache's last bucket newer than
the last line left in the source? -/
def cacheNewer : Option Nat → Option Nat → Bool
  | some c, some t => decide (c > t)
  | some _, none => true
  | none, _ => false

/-- `DownSampledData::open` + catch-up (after the fix of `repair::add_missing_data`) -/
def cacheOpen (dir : Dir) (B : Nat) (src : DataSess) (cb : Option Bool) : Dir × R CacheSess :=
  let st := dir.cache B
  match fileOpenExisting st.data with
  | .error f => (dir, .error f)
  | .ok (off, _) =>
    let (st, rd) := dataOpenExisting st src.p off cb
    let dir := dir.setCache B st
    match rd with
    | .error f => (dir, .error f)
    | .ok d =>
      match dataLenLines d, dataLenLines src with
      | .ok clen, .ok slen =>
        -- repair::add_missing_data
        -- ahead by a whole bucket, or (after the fix) the last bucket reaches beyond the source and
        -- is newer than the last line left in the source (`Option` order: `None < Some`)
        let newer : Bool := cacheNewer d.lastTime src.lastTime
        let ahead : Bool := decide (clen * B ≥ slen + B) || (decide (clen * B > slen) && newer)
        let (st, d) : Store × DataSess :=
          if ahead then
            ({ st with data := st.data.map (·.take d.hdrLen), index := st.index.map (·.take d.ihdrLen) },
             { d with dataLen := 0, entries := [], lastFull := none })
          else (st, d)
        let dir := dir.setCache B st
        let accounted := if ahead then 0 else clen * B
        if accounted ≥ slen then (dir, .ok { B := B, d := d, skip := accounted - slen })
        else
          let c : CacheSess := { B := B, d := d }
          match lineOffset src accounted with
          | none => (dir, .ok c)
          | some (start, full) =>
            let region := dir.main.region src.hdrLen
            let (st', rc) := feedCache region src cb st c start src.dataLen full
            (dir.setCache B st', rc)
      | .error f, _ => (dir, .error f)
      | _, .error f => (dir, .error f)

/-- `DownSampledData::open_or_create` (after the fix: a cache cut off inside its own file
header is removed, with its index, and created again) -/
def cacheOpenOrCreate (dir : Dir) (B : Nat) (src : DataSess) (cb : Option Bool) : Dir × R CacheSess :=
  match fileOpenExisting (dir.cache B).data with
  | .error (.err "NotFound") => cacheCreate dir B src cb
  | .error (.err "UnexpectedEof") =>
    cacheCreate (dir.setCache B { dir.cache B with data := none, index := none }) B src cb
  | _ => cacheOpen dir B src cb

def openCaches (create : Bool) (dir : Dir) (src : DataSess) (cb : Option Bool) :
    List Nat → List CacheSess → Dir × R (List CacheSess)
  | [], done => (dir, .ok done.reverse)
  | B :: Bs, done =>
    let (dir, rc) := if create then cacheCreate dir B src cb else cacheOpenOrCreate dir B src cb
    match rc with
    | .error f => (dir, .error f)
    | .ok c => openCaches create dir src cb Bs (c :: done)

/-- `ByteSeries::new_with_resamplers` via `builder.open` with `create_new(true)` -/
def apiNew (dir : Dir) (p : Nat) (hdr : Option Bytes) (caches : List Nat) : Dir × R (Sess × Bytes) :=
  let user := hdr.getD []
  let (main, rd) := dataNew dir.main p (toText p ++ user)
  let dir := { dir with main := main }
  match rd with
  | .error f => (dir, .error (wrapErr "Create" f))
  | .ok d =>
    match openCaches true dir d none caches [] with
    | (dir, .error f) => (dir, .error (wrapErr "Downsampled" f))
    | (dir, .ok cs) => (dir, .ok ({ d := d, range := none, caches := cs, cb := none }, user))

/-- `TimeRange::from_data` -/
def rangeFromData (d : DataSess) : R (Option (Nat × Nat)) :=
  match d.entries.head? with
  | none => .ok none
  | some f => match d.lastTime with
    | some l => .ok (some (f.ts, l))
    | none => .error .panic

/-- the header comparison of `builder.open` -/
def headerResult (hdr : Option Bytes) (user : Bytes) : R Bytes :=
  match hdr with
  | some expected => if user ≠ expected then .error (.err "Header/Mismatch") else .ok expected
  | none => .ok user

/-- `ByteSeries::open_existing_with_resampler` via `builder.open` -/
def apiOpen (dir : Dir) (p : Option Nat) (hdr : Option Bytes) (caches : List Nat) (cb : Option Bool) :
    Dir × R (Sess × Bytes) :=
  match fileOpenExisting dir.main.data with
  | .error f => (dir, .error (wrapErr "Open" f))
  | .ok (off, header) =>
    match checkAndSplitHeader header p with
    | .error f => (dir, .error f)
    | .ok (p, user) =>
      let (main, rd) := dataOpenExisting dir.main p off cb
      let dir := { dir with main := main }
      match rd with
      | .error f => (dir, .error (wrapErr "Open" f))
      | .ok d =>
        match rangeFromData d with
        | .error f => (dir, .error f)
        | .ok range =>
          match openCaches false dir d cb caches [] with
          | (dir, .error f) => (dir, .error (wrapErr "Downsampled" f))
          | (dir, .ok cs) =>
            match headerResult hdr user with
            | .error f => (dir, .error f)
            | .ok h => (dir, .ok ({ d := d, range := range, caches := cs, cb := cb }, h))

def mainRegion (dir : Dir) (s : Sess) : Bytes := dir.main.region s.d.hdrLen

/-- the seek every read starts with: `InvalidRange` for `RoughPos::new`, `Seeking` for `refine` -/
def apiSeek (region : Bytes) (d : DataSess) (s e : Bound) : R (Option Pos) :=
  match roughPos d.view s e with
  | .error f => .error (wrapErr "InvalidRange" f)
  | .ok r =>
    match refine d.view region r with
    | .error f => .error (wrapErr "Seeking" f)
    | .ok pos => .ok pos

def apiReadAll (dir : Dir) (s : Sess) (sb eb : Bound) : R (List Entry) := do
  let region := mainRegion dir s
  match ← apiSeek region s.d sb eb with
  | none => pure []
  | some pos =>
    match dataReadAll region s.d s.cb pos with
    | .ok es => pure es
    | .error f => .error (wrapErr "Reading" f)

/-- `read_first_n` (after the fix: `n = 0` returns nothing) -/
def apiReadFirstN (dir : Dir) (s : Sess) (n : Nat) (sb eb : Bound) : R (List Entry) := do
  if n = 0 then return []
  let region := mainRegion dir s
  match ← apiSeek region s.d sb eb with
  | none => pure []
  | some pos =>
    match dataReadFirstN region s.d s.cb n pos with
    | .ok es => pure es
    | .error f => .error (wrapErr "Reading" f)

/-- `n_lines_between`: the same seek; an empty file counts as zero lines -/
def apiNLines (dir : Dir) (s : Sess) (sb eb : Bound) : R Nat :=
  match apiSeek (mainRegion dir s) s.d sb eb with
  | .error (.err "InvalidRange/EmptyFile") => .ok 0
  | .error f => .error f
  | .ok (some pos) => .ok (pos.lines s.d.p)
  | .ok none => .ok 0

/-- level selection of `read_n`: index into `raw :: caches` -/
def selectLevel (s : Sess) (n : Nat) (sb eb : Bound) : R Nat :=
  let rec go (lvl : Nat) : List CacheSess → R Nat
    | [] => .ok lvl
    | c :: cs =>
      match roughPos c.d.view sb eb with
      | .error .panic => .error .panic
      | .error _ => .ok lvl
      | .ok r =>
        match estimateLines c.d.p c.d.dataLen r with
        | .error f => .error f
        | .ok est =>
          if est.max < n then .ok lvl
          else if est.min < n then .ok lvl
          else go (lvl + 1) cs
  go 0 s.caches

/-- the tail of `read_n` once the level is chosen: seek, bucket size from the line count,
resampling read -/
def readNTail (region : Bytes) (d : DataSess) (cb : Option Bool) (n : Nat) (sb eb : Bound) : R (List Entry) := do
  match ← apiSeek region d sb eb with
  | none => pure []
  | some pos =>
    let lines := pos.lines d.p
    let bucket := max 1 (lines / n)
    match dataReadResampling region d cb bucket pos with
    | .ok es => pure es
    | .error f => .error (wrapErr "Reading" f)

/-- region and `Data` of level `lvl` (0 = the series itself, `i+1` = cache `i`) -/
def levelData (dir : Dir) (s : Sess) (lvl : Nat) : Bytes × DataSess :=
  if lvl = 0 then (mainRegion dir s, s.d)
  else match s.caches[lvl - 1]? with
    | some c => ((dir.cache c.B).region c.d.hdrLen, c.d)
    | none => (mainRegion dir s, s.d)

/-- the ordering assert of `read_n`: line counts of the cache levels do not increase -/
def lensSorted (lens : List Nat) : Bool :=
  (lens.zip (lens.drop 1)).all fun (a, b) => decide (a ≥ b)

/-- `read_n` (after the fixes: `n = 0` returns nothing; the ordering assert compares line counts) -/
def apiReadN (dir : Dir) (s : Sess) (n : Nat) (sb eb : Bound) : R (List Entry) := do
  let lens ← (s.caches.mapM fun c => dataLenLines c.d)
  if !lensSorted lens then .error .panic
  if n = 0 then return []
  let lvl ← selectLevel s n sb eb
  readNTail (levelData dir s lvl).1 (levelData dir s lvl).2 s.cb n sb eb

/-- the paging loop of examples/read.rs as run by the harness: `.error` carries the text
printed when the loop ends in a fault -/
def pageLoop (dir : Dir) (s : Sess) (n : Nat) : Nat → Nat → List Entry → Except String (List Entry)
  | 0, _, acc => .error ("err Loop " ++ fmtEntries acc)
  | fuel+1, readStart, acc =>
    match apiReadFirstN dir s n (.incl readStart) .unb with
    | .error f =>
      if f = .err "InvalidRange/StartAfterData" then .ok acc else .error (fmtFault f)
    | .ok [] => .ok acc
    | .ok (x :: rest) =>
      let acc := acc ++ x :: rest
      match acc.getLast? with
      | none => .ok acc
      | some l => if l.ts + 1 < 2^64 then pageLoop dir s n fuel (l.ts + 1) acc else .ok acc

def apiPage (dir : Dir) (s : Sess) (n : Nat) : String :=
  match s.range with
  | none => "ok -"
  | some (first, _) =>
    match dataLenLines s.d with
    | .error _ => "panic"
    | .ok len =>
      match pageLoop dir s n (len + 3) first [] with
      | .ok es => fmtEntries es
      | .error t => t

/-! ### `pushrun`: many appends in a row (a harness op, not a library call)

`pushRunSlow` is the definition: `push_line` once per generated line.  For a session without
caches `pushRunFast` computes the same thing in linear time by collecting what each
`push_data` appends and writing it once at the end; `Proofs/PushRun.lean` proves them equal. -/

/-- what one accepted `Data::push_data` appends to the data file and to the index file -/
def pushDelta (d : DataSess) (ts : Nat) (line : Bytes) : R (Bytes × Bytes × DataSess) :=
  let newSection : R (Bytes × Bytes × DataSess) :=
    let e : IEntry := ⟨ts, d.dataLen⟩
    .ok (metaWrite d.p ts ++ le2 0 ++ line.take d.p, encIEntry e,
      { d with entries := d.entries ++ [e], lastFull := some ts,
               dataLen := d.dataLen + metaSize d.p + lineSize d.p, lastTime := some ts })
  match d.lastFull with
  | none => newSection
  | some lf =>
    if ts < lf then .error (.err "OutOfOrder")
    else if ts - lf > maxSmallTs then newSection
    else .ok (le2 (ts - lf) ++ line.take d.p, [], { d with dataLen := d.dataLen + lineSize d.p, lastTime := some ts })

/-- `push_line` of a session without caches, as a delta -/
def pushLineDelta (s : Sess) (ts : Nat) (pl : Bytes) : R (Bytes × Bytes × Sess) :=
  if pl.length ≠ s.d.p then .error (.err "WrongLineLength/WrongLineLength")
  else
    match rangeUpdate s.range ts with
    | .error f => .error f
    | .ok range' =>
      match pushDelta s.d ts pl with
      | .error f => .error (wrapErr "Pushing" f)
      | .ok (a, b, d') => .ok (a, b, { s with d := d', range := range' })

def Dir.appendMain (dir : Dir) (a b : Bytes) : Dir :=
  { dir with main := { dir.main with data := appendTo dir.main.data a, index := appendTo dir.main.index b } }

/-- result of a run of appends: directory, session (`none` after a panic), text -/
structure RunOut where
  dir : Dir
  sess : Option Sess
  out : String

def pushRunSlow (stp count : Nat) : Nat → Nat → Nat → UInt64 → Dir → Sess → RunOut
  | _, 0, _, _, dir, s => ⟨dir, some s, s!"ok {count}"⟩
  | i, fuel+1, ts, seed, dir, s =>
    let (pl, seed') := lcgBytes s.d.p seed
    match pushLine dir s ts pl with
    | (dir, .error .panic) => ⟨dir, none, "panic"⟩
    | (dir, .error (.err c)) => ⟨dir, some s, s!"fail@{i} {c}"⟩
    | (dir, .ok s') =>
      if ts + stp < 2^64 then pushRunSlow stp count (i + 1) fuel (ts + stp) seed' dir s'
      else ⟨dir, some s', s!"ok {i + 1}"⟩

def pushRunFast (stp count : Nat) (dir0 : Dir) : Nat → Nat → Nat → UInt64 → Sess → List Bytes → List Bytes → RunOut
  | _, 0, _, _, s, accD, accI => ⟨dir0.appendMain accD.reverse.flatten accI.reverse.flatten, some s, s!"ok {count}"⟩
  | i, fuel+1, ts, seed, s, accD, accI =>
    let (pl, seed') := lcgBytes s.d.p seed
    match pushLineDelta s ts pl with
    | .error .panic => ⟨dir0.appendMain accD.reverse.flatten accI.reverse.flatten, none, "panic"⟩
    | .error (.err c) => ⟨dir0.appendMain accD.reverse.flatten accI.reverse.flatten, some s, s!"fail@{i} {c}"⟩
    | .ok (a, b, s') =>
      if ts + stp < 2^64 then pushRunFast stp count dir0 (i + 1) fuel (ts + stp) seed' s' (a :: accD) (b :: accI)
      else ⟨dir0.appendMain (a :: accD).reverse.flatten (b :: accI).reverse.flatten, some s', s!"ok {i + 1}"⟩

def withSess (w : World) (f : Dir → Sess → World × String) : World × String :=
  match w.sess with
  | none => (w, "closed")
  | some s => f w.dir s

/-- result of an op that may panic: a panic drops the session -/
def finish (w : World) (r : R String) : World × String :=
  match r with
  | .ok s => (w, s)
  | .error .panic => ({ w with sess := none }, "panic")
  | .error f => (w, fmtFault f)

def step (w : World) (op : Op) : World × String :=
  match op with
  | .bad => (w, "bad-op")
  | .new p hdr caches =>
    if w.sess.isSome then (w, "bad-op open") else
    let (dir, r) := apiNew w.dir p hdr caches
    match r with
    | .ok (s, h) => ({ w with dir := dir, sess := some s }, s!"ok p={s.d.p} hdr={hexOf h}")
    | .error f => ({ w with dir := dir }, fmtFault f)
  | .open p hdr caches cb _ext =>
    if w.sess.isSome then (w, "bad-op open") else
    let (dir, r) := apiOpen w.dir p hdr caches cb
    match r with
    | .ok (s, h) => ({ w with dir := dir, sess := some s }, s!"ok p={s.d.p} hdr={hexOf h}")
    | .error f => ({ w with dir := dir }, fmtFault f)
  | .close =>
    match w.sess with
    | some _ => ({ w with sess := none }, "ok")
    | none => (w, "closed")
  | .push ts pl => withSess w fun dir s =>
    match pushLine dir s ts pl with
    | (dir, .ok s') => ({ w with dir := dir, sess := some s' }, "ok")
    | (dir, .error .panic) => ({ w with dir := dir, sess := none }, "panic")
    | (dir, .error f) => ({ w with dir := dir }, fmtFault f)
  | .pushrun ts0 stp count seed => withSess w fun dir s =>
    let r := if s.caches.isEmpty then pushRunFast stp count dir 0 count ts0 (UInt64.ofNat seed) s [] []
             else pushRunSlow stp count 0 count ts0 (UInt64.ofNat seed) dir s
    ({ w with dir := r.dir, sess := r.sess }, r.out)
  | .readAll sb eb => withSess w fun dir s => finish w ((apiReadAll dir s sb eb).map fmtEntries)
  | .readFirstN n sb eb => withSess w fun dir s => finish w ((apiReadFirstN dir s n sb eb).map fmtEntries)
  | .readN n sb eb => withSess w fun dir s => finish w ((apiReadN dir s n sb eb).map fmtEntries)
  | .nLines sb eb => withSess w fun dir s => finish w ((apiNLines dir s sb eb).map fun n => s!"ok {n}")
  | .lastLine => withSess w fun dir s =>
    finish w (match lastLineOf (mainRegion dir s) s.d s.cb with
      | .ok e => .ok s!"ok {e.ts}:{hexOf e.pl}"
      | .error (.err c) => .error (.err (c ++ "/" ++ c))
      | .error .panic => .error .panic)
  | .len => withSess w fun _ s => finish w ((dataLenLines s.d).map fun n => s!"ok {n}")
  | .isEmpty => withSess w fun _ s => finish w ((dataLenLines s.d).map fun n => s!"ok {decide (n = 0)}")
  | .range => withSess w fun _ s =>
    (w, match s.range with
        | some (a, b) => s!"ok {a}..={b}"
        | none => "ok none")
  | .payloadSize => withSess w fun _ s => (w, s!"ok {s.d.p}")
  | .flush => withSess w fun _ _ => (w, "ok")
  | .page n => withSess w fun dir s =>
    let out := apiPage dir s n
    if out == "panic" then ({ w with sess := none }, out) else (w, out)
  | .files => (w, fmtFiles w.dir)
  | .cut r len =>
    if w.sess.isSome then (w, "bad-op open") else
    match w.dir.getRole r with
    | some b => ({ w with dir := w.dir.setRole r (some (if len ≤ b.length then b.take len else b)) }, "ok")
    | none => (w, "ok absent")
  | .rm r =>
    if w.sess.isSome then (w, "bad-op open") else
    match w.dir.getRole r with
    | some _ => ({ w with dir := w.dir.setRole r none }, "ok")
    | none => (w, "ok absent")
  | .put r b =>
    if w.sess.isSome then (w, "bad-op open") else
    ({ w with dir := w.dir.setRole r (some b) }, "ok")
  | .get r =>
    if w.sess.isSome then (w, "bad-op open") else
    match w.dir.getRole r with
    | some b => (w, "ok " ++ hexOf b)
    | none => (w, "ok absent")
  | .damage r off b =>
    if w.sess.isSome then (w, "bad-op open") else
    match w.dir.getRole r with
    | some cur =>
      if off + b.length ≤ cur.length then
        ({ w with dir := w.dir.setRole r (some (cur.take off ++ b ++ cur.drop (off + b.length))) }, "ok")
      else (w, "ok out-of-range")
    | none => (w, "ok absent")
  | .save k =>
    if w.sess.isSome then (w, "bad-op open") else
    ({ w with snaps := (k, w.dir) :: w.snaps.filter (·.1 != k) }, "ok")
  | .restore k =>
    if w.sess.isSome then (w, "bad-op open") else
    match w.snaps.find? (·.1 == k) with
    | some (_, d) => ({ w with dir := d }, "ok")
    | none => (w, "bad-op nosnap")

end BS.Impl
