/-
  MODEL of src/series/data/inline_meta/with_processor.rs (`read_with_processor`)
  at line granularity, and of the three processors built on it in
  src/series/data/inline_meta.rs (`read`, `read_first_n`, `read_resampling`).

  `scan` is the loop body run over ALL lines of the region at once (what the code
  would do with an unbounded buffer); `readChunked` is the real loop: buffers of
  `k` lines, the unfinished section at the end of a buffer carried to the front of
  the next one.  `BS/Proofs/Reader.lean` proves them equal for every `k ≥ 1`.
-/
import BS.Impl.Layout

namespace BS.Impl

/-- result of one processor call: `Ok(())`, `Err(e)` (reader stops), or a panic inside it -/
inductive PRes (σ : Type) where
  | cont (s : σ)
  | halt (s : σ)
  | fault

structure RSt (σ : Type) where
  full : Nat
  ps : σ
  /-- `skipping_over_corrupted_data` -/
  skip : Bool := false

/-- how `read_with_processor` can end early -/
inductive Stop (σ : Type) where
  /-- `CorruptMetaSection`; carries the processor as it was when the damage was met (what it
  wrote so far stays written) -/
  | corrupt (s : σ)
  | panic
  | halted (s : σ)

/-- `ts_from` + processor call for a data line; overflow of `full_ts + small_ts` panics -/
def procLine {σ : Type} (proc : σ → Nat → Bytes → PRes σ) (st : RSt σ) (l : Bytes) : Except (Stop σ) (RSt σ) :=
  let ts := st.full + unN (l.take 2)
  if ts < 2^64 then
    match proc st.ps ts (l.drop 2) with
    | .cont s => .ok { st with ps := s }
    | .halt s => .error (.halted s)
    | .fault => .error .panic
  else .error .panic

/-- one pass over `ls`; returns the state and the number of trailing lines that
belong to a section not yet complete (`needed_overlap / line_size`).
`cb` is the corruption callback: absent, or a constant answer. -/
def scan {σ : Type} (p : Nat) (cb : Option Bool) (proc : σ → Nat → Bytes → PRes σ)
    (st : RSt σ) (ls : List Bytes) : Except (Stop σ) (RSt σ × Nat) :=
  match ls with
  | [] => .ok (st, 0)
  | l :: rest =>
    if !isMarker l then
      if st.skip then scan p cb proc st rest          -- dropped: its base time is unknown
      else
      match procLine proc st l with
      | .ok st' => scan p cb proc st' rest
      | .error e => .error e
    else
      match rest with
      | [] => .ok (st, 1)
      | l2 :: rest2 =>
        if !isMarker l2 then
          if cb = some true then scan p cb proc { st with skip := true } rest2 else .error (.corrupt st.ps)
        else
          if rest2.length < rawCount p then .ok (st, 2 + rest2.length)
          else scan p cb proc { st with full := metaTs p l l2 (rest2.take (rawCount p)), skip := false } (rest2.drop (rawCount p))
termination_by ls.length
decreasing_by all_goals simp_all <;> omega

/-- the buffered loop: `k` fresh lines per refill, `carry` = unfinished section -/
def readChunked {σ : Type} (p k : Nat) (cb : Option Bool) (proc : σ → Nat → Bytes → PRes σ)
    (st : RSt σ) (carry rest : List Bytes) : Except (Stop σ) (RSt σ) :=
  if _h : rest = [] ∨ k = 0 then .ok st
  else
    let buf := carry ++ rest.take k
    match scan p cb proc st buf with
    | .error e => .error e
    | .ok (st', n) => readChunked p k cb proc st' (buf.drop (buf.length - n)) (rest.drop k)
termination_by rest.length
decreasing_by
  have : rest ≠ [] := by intro h'; exact _h (Or.inl h')
  have : 0 < rest.length := List.length_pos_iff.mpr this
  simp only [List.length_drop]; omega

/-- lines per refill: `16384.next_multiple_of(line_size) / line_size` -/
def chunkLines (p : Nat) : Nat := nextMultiple Gen.chunkRead (lineSize p) / lineSize p

/-- `read_with_processor` on the data region `d` (bytes after the header) for `Pos{start,end,first_full_ts}` -/
def readRegion {σ : Type} (p : Nat) (cb : Option Bool) (proc : σ → Nat → Bytes → PRes σ)
    (ps : σ) (d : Bytes) (start stop full : Nat) : Except (Stop σ) σ :=
  if stop < start then .error .panic            -- `seek.end - seek.start` underflows
  else
    let region := (d.drop start).take (stop - start)
    match readChunked p (chunkLines p) cb proc ⟨full, ps, false⟩ [] (toLines (lineSize p) region) with
    | .ok st => .ok st.ps
    | .error e => .error e

/-! ### processors -/

/-- `read`: collect everything; `assert!(ts > last || ts == 0)` -/
structure Collect where
  last : Nat := 0
  out : List Entry := []

def collectProc (s : Collect) (ts : Nat) (pl : Bytes) : PRes Collect :=
  if ts > s.last ∨ ts = 0 then .cont { last := ts, out := s.out ++ [⟨ts, pl⟩] }
  else .fault

/-- `read_first_n`: stop with `Err(ReachedN)` once `n_read >= n` -/
structure FirstN where
  n : Nat
  nRead : Nat := 0
  out : List Entry := []

def firstNProc (s : FirstN) (ts : Nat) (pl : Bytes) : PRes FirstN :=
  let s' := { s with nRead := s.nRead + 1, out := s.out ++ [⟨ts, pl⟩] }
  if s'.nRead ≥ s.n then .halt s' else .cont s'

/-- `Sampler` for the harness's integer resampler (`Lin`, state `u64`): timestamp
sum is u128 (after the fix), the value sum is a checked u64 -/
structure Sampler where
  bucket : Nat
  p : Nat
  tsSum : Nat := 0
  vSum : Nat := 0
  sampled : Nat := 0
  out : List Entry := []

def linDecode (pl : Bytes) : Nat := unN (pl.take 4)
def linEncode (p v : Nat) : Bytes := leN (min p 4) v ++ zeros (p - min p 4)

def samplerProc (s : Sampler) (ts : Nat) (pl : Bytes) : PRes Sampler :=
  let v := s.vSum + linDecode pl
  if v ≥ 2^64 then .fault else
  let s1 := { s with tsSum := s.tsSum + ts, vSum := v, sampled := s.sampled + 1 }
  if s1.sampled ≥ s1.bucket then
    .cont { s1 with tsSum := 0, vSum := 0, sampled := 0,
                    out := s1.out ++ [⟨s1.tsSum / s1.bucket, linEncode s.p (s1.vSum / s1.bucket)⟩] }
  else .cont s1

end BS.Impl
