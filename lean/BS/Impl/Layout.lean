/-
  MODEL of src/series/data/index.rs (PayloadSize), src/series/data/inline_meta/meta.rs
  (`lines_per_metainfo`, `write`, `read`).  Literal per payload size, like the Rust.
-/
import BS.Bytes
import BS.Generated.Consts

namespace BS.Impl

/-- what a Rust call can end in besides a value: a panic (assert, expect, overflow in
the overflow-checked profile, slice index) or an `Err` of some class -/
inductive Fault where
  | panic
  | err (cls : String)
deriving Repr, DecidableEq, Inhabited

abbrev R (α : Type) := Except Fault α

def lineSize (p : Nat) : Nat := p + 2

/-- `lines_per_metainfo` (table regenerated from the source) -/
def lpm : Nat → Nat
  | 0 => Gen.lpm0
  | 1 => Gen.lpm1
  | 2 => Gen.lpm2
  | 3 => Gen.lpm3
  | _ => Gen.lpm4

def metaSize (p : Nat) : Nat := lpm p * lineSize p

def maxSmallTs : Nat := Gen.maxSmallTs

def marker : Bytes := [UInt8.ofNat Gen.marker0, UInt8.ofNat Gen.marker1]

/-- `meta::write`: the section lines for timestamp bytes `t = ts.to_le_bytes()` -/
def metaWriteLines (p ts : Nat) : List Bytes :=
  let t := le8 ts
  match p with
  | 0 => [marker, marker, t.take 2, (t.drop 2).take 2, (t.drop 4).take 2, (t.drop 6).take 2]
  | 1 => [marker ++ t.take 1, marker ++ (t.drop 1).take 1, (t.drop 2).take 3, (t.drop 5).take 3]
  | 2 => [marker ++ t.take 2, marker ++ (t.drop 2).take 2, (t.drop 4).take 4]
  | 3 => [marker ++ t.take 3, marker ++ (t.drop 3).take 3, (t.drop 6).take 2 ++ zeros 3]
  | p+4 => [marker ++ t.take 4 ++ zeros p, marker ++ (t.drop 4).take 4 ++ zeros p]

def metaWrite (p ts : Nat) : Bytes := (metaWriteLines p ts).flatten

/-- raw lines `meta::read` pulls from the iterator after the two marker lines -/
def rawCount : Nat → Nat
  | 0 => 4 | 1 => 2 | 2 => 1 | 3 => 1 | _ => 0

/-- `meta::read` once enough lines are available -/
def metaTs (p : Nat) (l1 l2 : Bytes) (raws : List Bytes) : Nat :=
  match p with
  | 0 => unN (raws.flatten)
  | 1 => unN ((l1.drop 2).take 1 ++ (l2.drop 2).take 1 ++ raws.flatten)
  | 2 => unN (l1.drop 2 ++ l2.drop 2 ++ raws.flatten)
  | 3 => unN (l1.drop 2 ++ l2.drop 2 ++ (raws.flatten).take 2)
  | _ => unN ((l1.drop 2).take 4 ++ (l2.drop 2).take 4)

/-- `a.next_multiple_of(b)` for `b > 0` -/
def nextMultiple (a b : Nat) : Nat := (a + b - 1) / b * b

end BS.Impl
