/-
  The catch-up of a downsample cache on open, split into DECISION and EXECUTION:
  `catchUpPlan` is what `repair::add_missing_data` decides (the model's `cacheOpen` written as a
  list of actions), `applyPlan` carries a plan out on the model's directory.
  `BS/Proofs/GenTie.lean` proves (a) the model's `cacheOpen` is "open the cache's data, then
  `applyPlan (catchUpPlan ..)`" and (b) `add_missing_data` as translated from the Rust source
  computes exactly `catchUpPlan`.
-/
import BS.Impl.World
import BS.Impl.GenPrelude

namespace BS.Gen
open BS.Impl


/-- what the catch-up decides from the two line counts, the bucket size and the two last times:
the actions of `add_missing_data`, in order -/
def catchUpPlan (src d : DataSess) (B : Nat) : R (List CatchUp) :=
  match dataLenLines d, dataLenLines src with
  | .ok clen, .ok slen =>
    let newer : Bool := cacheNewer d.lastTime src.lastTime
    let ahead : Bool := decide (clen * B ≥ slen + B) || (decide (clen * B > slen) && newer)
    let acts : List CatchUp := if ahead then [.clear] else []
    let accounted := if ahead then 0 else clen * B
    if accounted ≥ slen then .ok (acts ++ [.skip (accounted - slen)])
    else
      match lineOffset src accounted with
      | none => .ok acts
      | some (start, full) => .ok (acts ++ [.replay ⟨start, src.dataLen, full⟩])
  | .error f, _ => .error f
  | _, .error f => .error f

/-- carrying out a plan on the model's directory: `clear` empties the cache's files behind their
headers, `skip` sets `lines_to_skip`, `replay` feeds the source from the position through `process` -/
def applyPlan (dir : Dir) (B : Nat) (src : DataSess) (cb : Option Bool) (st : Store) (d : DataSess) :
    List CatchUp → Dir × R CacheSess
  | [] => (dir.setCache B st, .ok { B := B, d := d })
  | .clear :: rest =>
    applyPlan dir B src cb
      { st with data := st.data.map (·.take d.hdrLen), index := st.index.map (·.take d.ihdrLen) }
      { d with dataLen := 0, entries := [], lastFull := none } rest
  | .skip n :: _ => (dir.setCache B st, .ok { B := B, d := d, skip := n })
  | .push _ _ :: rest => applyPlan dir B src cb st d rest          -- not an action of the catch-up
  | .outTs _ :: rest => applyPlan dir B src cb st d rest
  | .outItem _ :: rest => applyPlan dir B src cb st d rest
  | .cache _ _ :: rest => applyPlan dir B src cb st d rest
  | .replay pos :: _ =>
    let dir' := dir.setCache B st
    let r := feedCache (dir'.main.region src.hdrLen) src cb st { B := B, d := d } pos.start pos.stop pos.firstFull
    (dir'.setCache B r.1, r.2)


end BS.Gen
