/-
  MODEL of src/seek.rs (`RoughPos::new`, `refine`, `find_read_start`, `find_read_end`,
  `checked_start_time`, `checked_end_time`, `Pos::lines`), the search-area part of
  src/series/data/index.rs (`start_search_bounds`, `end_search_bounds`, `in_gap`)
  and src/seek/estimate.rs.
-/
import BS.Impl.Index

namespace BS.Impl

inductive Bound where
  | incl (t : Nat)
  | excl (t : Nat)
  | unb
deriving Repr, DecidableEq, Inhabited

inductive StartArea where
  | found (pos : Nat)
  | clipped
  | tillEnd (pos : Nat)
  | window (start stop : Nat)
  | gap (stops : Nat)
deriving Repr, DecidableEq

inductive EndArea where
  | found (pos : Nat)
  | tillEnd (pos : Nat)
  | window (start stop : Nat)
  | gap (start : Nat)
deriving Repr, DecidableEq

/-- what the seek code reads of the `Data` struct -/
structure DataView where
  p : Nat
  dataLen : Nat
  entries : List IEntry
  lastFull : Option Nat       -- `index.last_timestamp()`
  lastTime : Option Nat       -- `data.last_time()`

/-- `binary_search_by_key` on strictly increasing keys: `Ok(i)` / `Err(i)` -/
def bsearch (entries : List IEntry) (t : Nat) : Bool × Nat :=
  let i := (entries.takeWhile (fun e => e.ts < t)).length
  match entries[i]? with
  | some e => (e.ts == t, i)
  | none => (false, i)

def inGap (v gapStart : Nat) : Bool := v > gapStart + maxSmallTs

def lineStart (p : Nat) (metaPos : Nat) : Nat := metaPos + metaSize p

/-- `Index::start_search_bounds` -/
def startSearchBounds (v : DataView) (startTs : Nat) : R (StartArea × Nat) :=
  let i := (bsearch v.entries startTs).2
  if (bsearch v.entries startTs).1 then
    match v.entries[i]? with
    | some e => .ok (.found (lineStart v.p e.off), startTs)
    | none => .error .panic
  else if i = 0 then
    match v.entries[0]? with
    | some e => .ok (.clipped, e.ts)
    | none => .error .panic
  else if i = v.entries.length then
    match v.entries[i - 1]? with
    | some e => .ok (.tillEnd (lineStart v.p e.off), e.ts)
    | none => .error .panic
  else
    match v.entries[i - 1]?, v.entries[i]? with
    | some prev, some next =>
      if inGap startTs prev.ts then .ok (.gap (lineStart v.p next.off), next.ts)
      else if startTs ≥ next.ts then .ok (.gap (lineStart v.p next.off), next.ts)
      else .ok (.window (lineStart v.p prev.off) next.off, prev.ts)
    | _, _ => .error .panic

/-- `Index::end_search_bounds` (after the fix: a bound inside a gap ends the read
where the section after the gap begins) -/
def endSearchBounds (v : DataView) (endTs : Nat) : R (EndArea × Nat) :=
  let i := (bsearch v.entries endTs).2
  if (bsearch v.entries endTs).1 then
    match v.entries[i]? with
    | some e => .ok (.found (lineStart v.p e.off), e.ts)
    | none => .error .panic
  else if i = 0 then .error .panic                          -- `assert!(end > 0)`
  else if i = v.entries.length then
    match v.entries[i - 1]? with
    | some e => .ok (.tillEnd (lineStart v.p e.off), e.ts)
    | none => .error .panic
  else
    match v.entries[i - 1]?, v.entries[i]? with
    | some prev, some next =>
      if inGap endTs prev.ts then .ok (.gap next.off, prev.ts)
      else .ok (.window (lineStart v.p prev.off) next.off, prev.ts)
    | _, _ => .error .panic

/-- `Data::range()` -/
def dataRange (v : DataView) : R (Option (Nat × Nat)) :=
  match v.entries.head? with
  | none => .ok none
  | some f =>
    match v.lastTime with
    | some l => .ok (some (f.ts, l))
    | none => .error .panic                              -- `.expect("first time is Some")`

/-- `checked_start_time` (after the fix: `Excluded(t)` starts at `t+1`) -/
def checkedStartTime (v : DataView) (s : Bound) : R Nat := do
  match ← dataRange v with
  | none => .error (.err "EmptyFile")
  | some (first, last) =>
    let t ← match s with
      | .incl t => pure t
      | .excl t => if t + 1 < 2^64 then pure (t + 1) else .error (.err "StartAfterData")
      | .unb => pure first
    let t := max t first
    if t > last then .error (.err "StartAfterData") else pure t

/-- `checked_end_time` (after the fix: `Excluded(0)` is before any data) -/
def checkedEndTime (v : DataView) (e : Bound) : R Nat := do
  match ← dataRange v with
  | none => .error (.err "EmptyFile")
  | some (first, last) =>
    let t ← match e with
      | .incl t => pure t
      | .excl t => if t = 0 then .error (.err "StopBeforeData") else pure (t - 1)
      | .unb => pure last
    let t := min t last
    if t < first then .error (.err "StopBeforeData") else pure t

structure RoughPos where
  startTs : Nat
  startArea : StartArea
  startFull : Nat
  endTs : Nat
  endArea : EndArea
  endFull : Nat

/-- start search area of `RoughPos::new` -/
def startAreaOf (v : DataView) (s : Bound) (startTs : Nat) : R (StartArea × Nat) :=
  match s with
  | .unb =>
    match v.entries.head? with
    | some f => .ok (StartArea.found (lineStart v.p 0), f.ts)
    | none => .error .panic
  | _ => startSearchBounds v startTs

/-- end search area of `RoughPos::new` -/
def endAreaOf (v : DataView) (e : Bound) (endTs : Nat) : R (EndArea × Nat) :=
  match e with
  | .unb =>
    match v.lastFull with
    | some lf =>
      if v.dataLen < lineSize v.p then .error .panic       -- `last_line_start` underflow
      else .ok (EndArea.found (v.dataLen - lineSize v.p), lf)
    | none => .error .panic
  | _ => endSearchBounds v endTs

/-- `RoughPos::new` -/
def roughPos (v : DataView) (s e : Bound) : R RoughPos := do
  let startTs ← checkedStartTime v s
  let endTs ← checkedEndTime v e
  if startTs > endTs then .error (.err "StartBeforeStop") else
  let sa ← startAreaOf v s startTs
  let ea ← endAreaOf v e endTs
  return ⟨startTs, sa.1, sa.2, endTs, ea.1, ea.2⟩

/-- the u16 at the start of every line of `d[start..stop]` -/
def smallTss (p : Nat) (d : Bytes) (start stop : Nat) : List Nat :=
  (toLines (lineSize p) ((d.drop start).take (stop - start))).map fun l => unN (l.take 2)

/-- `find_read_start` -/
def findReadStart (p : Nat) (d : Bytes) (startSmall start stop : Nat) : Nat :=
  if stop ≤ start + lineSize p then stop
  else
    let tss := smallTss p d start stop
    match tss.findIdx? (fun t => t ≥ startSmall) with
    | some i => start + i * lineSize p
    | none => stop

/-- `rposition`: index of the last element satisfying `f` -/
def rposition (f : Nat → Bool) (l : List Nat) : Option Nat :=
  match (l.reverse).findIdx? f with
  | some j => some (l.length - 1 - j)
  | none => none

/-- `find_read_end` -/
def findReadEnd (p : Nat) (d : Bytes) (endSmall start stop : Nat) : R Nat :=
  if stop < start then .error .panic                       -- the `assert!`
  else
    let tss := smallTss p d start stop
    match rposition (fun t => t ≤ endSmall) tss with
    | some i => .ok (start + (i + 1) * lineSize p)
    | none => .ok stop

/-- `start_small_ts` / `end_small_ts` -/
def smallOf (ts full : Nat) : R Nat :=
  if ts < full then .error .panic
  else if ts - full > maxSmallTs then .error .panic
  else .ok (ts - full)

structure Pos where
  start : Nat
  stop : Nat
  firstFull : Nat
deriving Repr, DecidableEq

/-- first half of `RoughPos::refine`: the byte the read starts at -/
def refineStart (v : DataView) (d : Bytes) (r : RoughPos) : R Nat :=
  match r.startArea with
  | .found pos => pure pos
  | .gap pos => pure pos
  | .clipped => pure (lineStart v.p 0)
  | .tillEnd start => do
    let s ← smallOf r.startTs r.startFull
    pure (findReadStart v.p d s start v.dataLen)
  | .window start stop => do
    let s ← smallOf r.startTs r.startFull
    pure (findReadStart v.p d s start stop)

/-- second half of `RoughPos::refine`: the byte the read stops before -/
def refineEnd (v : DataView) (d : Bytes) (r : RoughPos) : R Nat :=
  match r.endArea with
  | .found pos => pure (pos + lineSize v.p)
  | .gap pos => pure pos
  | .tillEnd start => do
    let s ← smallOf r.endTs r.endFull
    findReadEnd v.p d s start v.dataLen
  | .window start stop => do
    let s ← smallOf r.endTs r.endFull
    findReadEnd v.p d s start stop

/-- `RoughPos::refine`; `d` is the data region -/
def refine (v : DataView) (d : Bytes) (r : RoughPos) : R (Option Pos) := do
  let startByte ← refineStart v d r
  let endByte ← refineEnd v d r
  if endByte ≤ startByte then return none
  else return some ⟨startByte, endByte, r.startFull⟩

/-- `Pos::lines` -/
def Pos.lines (pos : Pos) (p : Nat) : Nat := (pos.stop - pos.start) / lineSize p

/-- the whole seek of a read: `RoughPos::new(..)?.refine(..)?` -/
def seek (v : DataView) (d : Bytes) (s e : Bound) : R (Option Pos) := do
  let r ← roughPos v s e
  refine v d r

/-! ### `estimate_lines` (after the fix: saturating subtraction) -/

structure Estimate where
  max : Nat
  min : Nat
deriving Repr, DecidableEq

def estimateLines (p dataLen : Nat) (r : RoughPos) : R Estimate :=
  let ms := metaSize p
  let bytes : R Estimate :=
    match r.startArea, r.endArea with
    | .found s, .found e | .gap s, .found e => .ok ⟨e - s, e - s⟩
    | .found s, .gap e | .gap s, .gap e => .ok ⟨e - s, e - s⟩
    | .found s, .tillEnd e | .gap s, .tillEnd e => .ok ⟨dataLen - s, e - s⟩
    | .found s, .window emin emax | .gap s, .window emin emax => .ok ⟨emax - s, emin - s⟩
    | .clipped, .found e => .ok ⟨e, e⟩
    | .clipped, .gap e => .ok ⟨e, e⟩
    | .clipped, .tillEnd e => .ok ⟨dataLen, e⟩
    | .clipped, .window emin emax => .ok ⟨emax, emin⟩
    | .tillEnd s, .found e => .ok ⟨e - s, 1⟩
    | .tillEnd s, .gap e => .ok ⟨(e + ms) - s, 1⟩
    | .tillEnd s, .tillEnd _ => .ok ⟨dataLen - s, 1⟩
    | .tillEnd _, .window _ _ => .error .panic                  -- `unreachable!`
    | .window smin smax, .found e => .ok ⟨e - smin, e - (smax + ms)⟩
    | .window smin smax, .gap e => .ok ⟨e - smin, e - smax⟩
    | .window smin smax, .tillEnd e => .ok ⟨dataLen - smin, e - (smax + ms)⟩
    | .window smin smax, .window emin emax => .ok ⟨emax - smin, emin - (smax + ms)⟩
  match bytes with
  | .ok b => .ok ⟨b.max / lineSize p, b.min / lineSize p⟩
  | .error f => .error f

end BS.Impl
