/-
  MODEL of the open-time repair pipeline of the data file,
  src/series/data/inline_meta.rs: `FileWithInlineMeta::new`,
  `repair_incomplete_last_write`, `repaired_is_only_meta`,
  `removed_partial_meta_at_end`, `removed_start_of_meta_at_end`.
  Input and output are the data REGION (file bytes after the header).
-/
import BS.Impl.Layout

namespace BS.Impl

/-- `tuple_windows().position(|(a,b)| both start with the marker)` -/
def firstMarkerPair : List Bytes → Option Nat
  | a :: b :: rest =>
    if isMarker a && isMarker b then some 0
    else (firstMarkerPair (b :: rest)).map (· + 1)
  | _ => none

/-- `repair_incomplete_last_write` -/
def dropPartialLine (p : Nat) (d : Bytes) : Bytes :=
  d.take (d.length - d.length % lineSize p)

/-- `removed_partial_meta_at_end`: `none` when nothing was removed -/
def removePartialMeta (p : Nat) (d : Bytes) : Option Bytes :=
  let checkStart := d.length - metaSize p
  let toCheck := d.drop checkStart ++ marker ++ zeros p
  match firstMarkerPair (toLines (lineSize p) toCheck) with
  | some i => some (d.take (checkStart + i * lineSize p))
  | none => none

/-- `removed_start_of_meta_at_end`.  Modelled literally: `lines.by_ref().last()`
exhausts the iterator, so the `.take(2).all(..)` that follows runs over nothing and
is `true`; the truncation can never happen. -/
def removeStartOfMeta (p : Nat) (d : Bytes) : Option Bytes :=
  let toCheck := (d.drop (d.length - metaSize p)).take (2 * lineSize p)
  let lines := toLines (lineSize p) toCheck
  let lastLine := lines.getLast?
  let remaining : List Bytes := []          -- iterator after `.last()`
  let metaStartBefore := (remaining.take 2).all isMarker
  match lastLine with
  | some l => if isMarker l && !metaStartBefore then some (d.take (d.length - lineSize p)) else none
  | none => none

/-- `FileWithInlineMeta::new` (the `'check_and_repair` block) -/
def repairData (p : Nat) (d : Bytes) : Bytes :=
  if d.length = 0 then d
  else
    let d1 := dropPartialLine p d
    if d1.length ≤ metaSize p then []
    else
      match removePartialMeta p d1 with
      | some d2 => d2
      | none =>
        match removeStartOfMeta p d1 with
        | some d3 => d3
        | none => d1

end BS.Impl
