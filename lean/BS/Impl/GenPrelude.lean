/-
  Hand-written vocabulary for the MECHANICALLY TRANSLATED part of the model
  (`BS/Generated/Core.lean`, written by tools/rs2lean.py from /repo/src on every run).

  Every Rust arithmetic operator on unsigned integers is a checked operation here (the
  overflow-checked profile the test suite runs in): `a + b` is `add a b`, which is a panic
  when the sum does not fit 64 bits, and so on.  `std` routines the translated code calls are
  given their documented meaning (`binary_search_by_key` on strictly increasing keys,
  `checked_*`, `saturating_*`, `Option::expect`, slice indexing).
-/
import BS.Impl.Seek
import BS.Impl.Reader
import BS.Impl.Repair

namespace BS.Gen
open BS.Impl

namespace Rs

def add (a b : Nat) : R Nat := if a + b < 2^64 then .ok (a + b) else .error .panic
def sub (a b : Nat) : R Nat := if b ≤ a then .ok (a - b) else .error .panic
def mul (a b : Nat) : R Nat := if a * b < 2^64 then .ok (a * b) else .error .panic
def div (a b : Nat) : R Nat := if b = 0 then .error .panic else .ok (a / b)

def add128 (a b : Nat) : R Nat := if a + b < 2^128 then .ok (a + b) else .error .panic
def mul128 (a b : Nat) : R Nat := if a * b < 2^128 then .ok (a * b) else .error .panic

/-- `u64::try_from(x)` for a wider `x` -/
def tryU64 (x : Nat) : Option Nat := if x < 2^64 then some x else none

def checkedAdd (a b : Nat) : Option Nat := if a + b < 2^64 then some (a + b) else none
def checkedSub (a b : Nat) : Option Nat := if b ≤ a then some (a - b) else none
def satAdd (a b : Nat) : Nat := min (a + b) (2^64 - 1)
def satMul (a b : Nat) : Nat := min (a * b) (2^64 - 1)

/-- `u16::try_from(x)` as an `Option` -/
def tryU16 (x : Nat) : Option Nat := if x < 65536 then some x else none

/-- `Option::expect` / `unwrap` -/
def expect {α : Type} (o : Option α) : R α :=
  match o with
  | some x => .ok x
  | none => .error .panic

/-- `Option::ok_or(e)?` -/
def okOr {α : Type} (o : Option α) (f : Fault) : R α :=
  match o with
  | some x => .ok x
  | none => .error f

/-- `slice[i]` -/
def idx {α : Type} (l : List α) (i : Nat) : R α :=
  match l[i]? with
  | some x => .ok x
  | none => .error .panic

/-- result of `binary_search_by_key` -/
inductive BRes where
  | ok (i : Nat)
  | err (i : Nat)
deriving Repr, DecidableEq

/-- `slice.binary_search_by_key(&k, key)` for strictly increasing keys: the position of the
key, or the position it would have to be inserted at -/
def bsearchKey {α : Type} (l : List α) (key : α → Nat) (k : Nat) : BRes :=
  let i := (l.takeWhile (fun e => key e < k)).length
  match l[i]? with
  | some e => if key e = k then .ok i else .err i
  | none => .err i

/-- `bytes[lo..hi]` -/
def slice (b : Bytes) (lo hi : Nat) : R Bytes :=
  if lo ≤ hi ∧ hi ≤ b.length then .ok ((b.drop lo).take (hi - lo)) else .error .panic

/-- `bytes[lo..]` -/
def sliceFrom (b : Bytes) (lo : Nat) : R Bytes :=
  if lo ≤ b.length then .ok (b.drop lo) else .error .panic

/-- `buf[lo..hi].copy_from_slice(src)`: the lengths have to agree -/
def copyFromSlice (buf : Bytes) (lo hi : Nat) (src : Bytes) : R Bytes :=
  if lo ≤ hi ∧ hi ≤ buf.length ∧ src.length = hi - lo then .ok (buf.take lo ++ src ++ buf.drop hi) else .error .panic

/-- the derived order of `Option<u64>`: `None < Some(_)`, `Some` by value -/
def optLt : Option Nat → Option Nat → Bool
  | none, some _ => true
  | some a, some b => decide (a < b)
  | _, none => false

/-- `buf[i] = v` -/
def setIdx (buf : Bytes) (i : Nat) (v : UInt8) : R Bytes :=
  if i < buf.length then .ok (buf.set i v) else .error .panic

end Rs

/-- `meta::Result`: what `meta::read` returns -/
inductive MetaResult where
  | outOfLines (consumed_lines : Nat)
  | gotMeta (m : Bytes)
deriving Repr, DecidableEq

/-- what `repair::add_missing_data` does to things outside itself, in order: empty the cache
(`downsampled.data.clear()`), set `lines_to_skip`, replay the source from a position through `process` -/
inductive CatchUp where
  | clear
  | skip (n : Nat)
  | replay (pos : Impl.Pos)
  | push (ts : Nat) (line : Bytes)            -- `self.data.push_data(ts, line)` of `process`
  | outTs (ts : Nat)                          -- `timestamps.push(ts)` of the resampling read
  | outItem (v : Nat)                         -- `data.push(item)` of the resampling read
  | cache (ts : Nat) (line : Bytes)           -- `downsampled.process(ts, line)` of `push_line`, per cache level
deriving Repr, DecidableEq

/-- the cache as `add_missing_data` sees it -/
structure CacheView where
  bucket_size : Nat
  data : DataView
  lines_to_skip : Nat
  samples_in_bin : Nat := 0
  ts_sum : Nat := 0                 -- u128
  resample_state : Nat := 0         -- the library's u64 `ResampleState` (harness resampler `Lin`)

/-- the `write_all` calls of the write path (`Data::push_data`, `Index::update`), in order -/
inductive IoW where
  | dataWrite (b : Bytes)
  | indexWrite (b : Bytes)
deriving Repr, DecidableEq

/-- what `push_line` touches of a `ByteSeries` -/
structure SeriesView where
  data : DataView
  range : Option (Nat × Nat)

/-- the part of `Index` the translated functions read -/
structure Index where
  entries : List IEntry
  last_timestamp : Option Nat

def Rs.indexOf (v : DataView) : Index := ⟨v.entries, v.lastFull⟩
/-- writing a changed `Index` back into the view (`self.index.update(..)` inside `Data`) -/
def Rs.withIndex (v : DataView) (i : Index) : DataView := { v with entries := i.entries, lastFull := i.last_timestamp }



/-- `a % b` (panics for `b = 0`) -/
def Rs.rem (a b : Nat) : R Nat := if b = 0 then .error .panic else .ok (a % b)
/-- `set_len(n)`: keep the first `n` bytes (a longer length fills with zeros) -/
def Rs.setLen (f : Bytes) (n : Nat) : Bytes := f.take n ++ List.replicate (n - f.length) 0
/-- a repair stage that is not translated: `some d` = it cut the file to `d` and reports `true` -/
def Rs.optStep (o : Option Bytes) (file : Bytes) : R (Bytes × Bool) :=
  match o with
  | some d => .ok (d, true)
  | none => .ok (file, false)
/-- what `FileWithInlineMeta::new` returns: the (repaired) file and the payload size -/
structure FileView where
  file_handle : Bytes
  payload_size : Nat


end BS.Gen
