/-
  Linear-time versions of the three read functions for compiled code.  The compiler uses them in
  place of the defining equations through @[csimp]; each replacement is a kernel-checked equation
  obtained from one generic simulation lemma about the reader (readRegion_sim).
-/
import BS.Proofs.Reader
import BS.Impl.Data

namespace BS.Impl
open BS

variable {σ τ : Type}

def PRes.map (f : σ → τ) : PRes σ → PRes τ
  | .cont s => .cont (f s)
  | .halt s => .halt (f s)
  | .fault => .fault

def Stop.map (f : σ → τ) : Stop σ → Stop τ
  | .corrupt s => .corrupt (f s)
  | .panic => .panic
  | .halted s => .halted (f s)

def RSt.map (f : σ → τ) (st : RSt σ) : RSt τ := ⟨st.full, f st.ps, st.skip⟩

/-- `proc2` does to `f s` what `proc1` does to `s` -/
def Simulates (f : σ → τ) (proc1 : σ → Nat → Bytes → PRes σ) (proc2 : τ → Nat → Bytes → PRes τ) : Prop :=
  ∀ s ts pl, proc2 (f s) ts pl = (proc1 s ts pl).map f

theorem procLine_sim (f : σ → τ) (proc1 proc2) (h : Simulates f proc1 proc2) (st : RSt σ) (l : Bytes) :
    procLine proc2 (st.map f) l =
      match procLine proc1 st l with
      | .ok st' => .ok (st'.map f)
      | .error e => .error (e.map f) := by
  unfold procLine
  simp only [RSt.map]
  by_cases hlt : st.full + unN (l.take 2) < 2^64
  · simp only [hlt, if_true]
    rw [h]
    cases proc1 st.ps (st.full + unN (l.take 2)) (l.drop 2) <;> simp [PRes.map, Stop.map]
  · simp only [hlt, if_false, Stop.map]

theorem scan_sim (f : σ → τ) (proc1 proc2) (h : Simulates f proc1 proc2) (p : Nat) (cb : Option Bool) :
    ∀ (n : Nat) (ls : List Bytes) (st : RSt σ), ls.length = n →
    scan p cb proc2 (st.map f) ls =
      match scan p cb proc1 st ls with
      | .ok (st', k) => .ok (st'.map f, k)
      | .error e => .error (e.map f) := by
  intro n
  induction n using Nat.strongRecOn with
  | ind n ih =>
    intro ls st hn
    match ls with
    | [] => simp [scan_nil]
    | l :: rest =>
      cases hm : isMarker l with
      | false =>
        rw [scan_data _ _ _ _ _ _ hm, scan_data _ _ _ _ _ _ hm]
        have hskip : (st.map f).skip = st.skip := rfl
        rw [hskip]
        by_cases hs : st.skip = true
        · simp only [hs, if_true]
          exact ih rest.length (by simp at hn; omega) rest st rfl
        · simp only [hs, if_false, Bool.false_eq_true]
          rw [procLine_sim f proc1 proc2 h st l]
          cases hp : procLine proc1 st l with
          | ok st' => simp only; exact ih rest.length (by simp at hn; omega) rest st' rfl
          | error e => simp
      | true =>
        match rest with
        | [] => simp [scan_marker_last _ _ _ _ _ hm]
        | l2 :: rest2 =>
          cases hm2 : isMarker l2 with
          | false =>
            rw [scan_lone _ _ _ _ _ _ _ hm hm2, scan_lone _ _ _ _ _ _ _ hm hm2]
            by_cases hc : cb = some true
            · simp only [hc, if_true]
              have := ih rest2.length (by simp at hn; omega) rest2 { st with skip := true } rfl
              rw [hc] at this
              exact this
            · simp only [hc, if_false]
              rfl
          | true =>
            rw [scan_pair _ _ _ _ _ _ _ hm hm2, scan_pair _ _ _ _ _ _ _ hm hm2]
            by_cases hr : rest2.length < rawCount p
            · simp [hr]
            · simp only [hr, if_false]
              exact ih (rest2.drop (rawCount p)).length (by simp at hn ⊢; omega) _
                { st with full := metaTs p l l2 (rest2.take (rawCount p)), skip := false } rfl

theorem readChunked_sim (f : σ → τ) (proc1 proc2) (h : Simulates f proc1 proc2) (p k : Nat) (cb : Option Bool) :
    ∀ (n : Nat) (rest carry : List Bytes) (st : RSt σ), rest.length = n →
    readChunked p k cb proc2 (st.map f) carry rest =
      match readChunked p k cb proc1 st carry rest with
      | .ok st' => .ok (st'.map f)
      | .error e => .error (e.map f) := by
  intro n
  induction n using Nat.strongRecOn with
  | ind n ih =>
    intro rest carry st hn
    rw [readChunked.eq_def, readChunked.eq_def (proc := proc1)]
    by_cases hd : rest = [] ∨ k = 0
    · simp [hd]
    · simp only [hd, dite_false]
      rw [scan_sim f proc1 proc2 h p cb _ _ st rfl]
      cases hs : scan p cb proc1 st (carry ++ rest.take k) with
      | error e => simp
      | ok v =>
        obtain ⟨st', m⟩ := v
        simp only
        have hne : rest ≠ [] := fun h' => hd (Or.inl h')
        have hk : k ≠ 0 := fun h' => hd (Or.inr h')
        have hpos : 0 < rest.length := List.length_pos_iff.mpr hne
        exact ih (rest.drop k).length (by simp only [List.length_drop]; omega) _ _ st' rfl

theorem readRegion_sim (f : σ → τ) (proc1 proc2) (h : Simulates f proc1 proc2) (p : Nat) (cb : Option Bool)
    (ps : σ) (d : Bytes) (start stop full : Nat) :
    readRegion p cb proc2 (f ps) d start stop full =
      match readRegion p cb proc1 ps d start stop full with
      | .ok s => .ok (f s)
      | .error e => .error (e.map f) := by
  unfold readRegion
  by_cases hs : stop < start
  · simp [hs, Stop.map]
  · simp only [hs, if_false]
    have := readChunked_sim f proc1 proc2 h p (chunkLines p) cb _
      (toLines (lineSize p) ((d.drop start).take (stop - start))) [] ⟨full, ps, false⟩ rfl
    simp only [RSt.map] at this
    rw [this]
    cases readChunked p (chunkLines p) cb proc1 ⟨full, ps, false⟩ [] (toLines (lineSize p) ((d.drop start).take (stop - start))) with
    | ok st => simp [RSt.map]
    | error e => simp

end BS.Impl

namespace BS.Impl
open BS

/-! ### linear-time reads for compiled code -/

structure CollectR where
  last : Nat := 0
  rev : List Entry := []

def collectProcR (s : CollectR) (ts : Nat) (pl : Bytes) : PRes CollectR :=
  if ts > s.last ∨ ts = 0 then .cont { last := ts, rev := ⟨ts, pl⟩ :: s.rev } else .fault

def Collect.toR (c : Collect) : CollectR := ⟨c.last, c.out.reverse⟩

theorem collect_sim : Simulates Collect.toR collectProc collectProcR := by
  intro s ts pl
  unfold collectProc collectProcR Collect.toR
  simp only
  split <;> simp [PRes.map]

def dataReadAllFast (region : Bytes) (d : DataSess) (cb : Option Bool) (pos : Pos) : R (List Entry) :=
  match readRegion d.p cb collectProcR {} region pos.start pos.stop pos.firstFull with
  | .ok c => .ok c.rev.reverse
  | .error e => .error (readErr e)

theorem readErr_map {σ τ : Type} (f : σ → τ) (e : Stop σ) : readErr (e.map f) = readErr e := by
  cases e <;> rfl

@[csimp] theorem dataReadAll_eq_fast : @dataReadAll = @dataReadAllFast := by
  funext region d cb pos
  unfold dataReadAll dataReadAllFast
  have h := readRegion_sim Collect.toR collectProc collectProcR collect_sim d.p cb {} region pos.start pos.stop pos.firstFull
  have h0 : Collect.toR {} = ({} : CollectR) := rfl
  rw [h0] at h
  rw [h]
  cases readRegion d.p cb collectProc {} region pos.start pos.stop pos.firstFull with
  | ok c => simp [Collect.toR]
  | error e => simp [readErr_map]

structure FirstNR where
  n : Nat
  nRead : Nat := 0
  rev : List Entry := []

def firstNProcR (s : FirstNR) (ts : Nat) (pl : Bytes) : PRes FirstNR :=
  let s' := { s with nRead := s.nRead + 1, rev := ⟨ts, pl⟩ :: s.rev }
  if s'.nRead ≥ s.n then .halt s' else .cont s'

def FirstN.toR (c : FirstN) : FirstNR := ⟨c.n, c.nRead, c.out.reverse⟩

theorem firstN_sim : Simulates FirstN.toR firstNProc firstNProcR := by
  intro s ts pl
  unfold firstNProc firstNProcR FirstN.toR
  simp only
  split <;> simp [PRes.map]

def dataReadFirstNFast (region : Bytes) (d : DataSess) (cb : Option Bool) (n : Nat) (pos : Pos) : R (List Entry) :=
  match readRegion d.p cb firstNProcR { n := n } region pos.start pos.stop pos.firstFull with
  | .ok c => .ok c.rev.reverse
  | .error (.halted c) => .ok c.rev.reverse
  | .error (.corrupt _) => .error (.err "CorruptMetaSection")
  | .error .panic => .error .panic

@[csimp] theorem dataReadFirstN_eq_fast : @dataReadFirstN = @dataReadFirstNFast := by
  funext region d cb n pos
  unfold dataReadFirstN dataReadFirstNFast
  have h := readRegion_sim FirstN.toR firstNProc firstNProcR firstN_sim d.p cb { n := n } region pos.start pos.stop pos.firstFull
  have h0 : FirstN.toR { n := n } = ({ n := n } : FirstNR) := rfl
  rw [h0] at h
  rw [h]
  cases readRegion d.p cb firstNProc { n := n } region pos.start pos.stop pos.firstFull with
  | ok c => simp [FirstN.toR]
  | error e => cases e <;> simp [Stop.map, FirstN.toR]

structure SamplerR where
  bucket : Nat
  p : Nat
  tsSum : Nat := 0
  vSum : Nat := 0
  sampled : Nat := 0
  rev : List Entry := []

def samplerProcR (s : SamplerR) (ts : Nat) (pl : Bytes) : PRes SamplerR :=
  let v := s.vSum + linDecode pl
  if v ≥ 2^64 then .fault else
  let s1 := { s with tsSum := s.tsSum + ts, vSum := v, sampled := s.sampled + 1 }
  if s1.sampled ≥ s1.bucket then
    .cont { s1 with tsSum := 0, vSum := 0, sampled := 0,
                    rev := ⟨s1.tsSum / s1.bucket, linEncode s.p (s1.vSum / s1.bucket)⟩ :: s1.rev }
  else .cont s1

def Sampler.toR (c : Sampler) : SamplerR := ⟨c.bucket, c.p, c.tsSum, c.vSum, c.sampled, c.out.reverse⟩

theorem sampler_sim : Simulates Sampler.toR samplerProc samplerProcR := by
  intro s ts pl
  unfold samplerProc samplerProcR Sampler.toR
  simp only
  split
  · simp [PRes.map]
  · split <;> simp [PRes.map]

def dataReadResamplingFast (region : Bytes) (d : DataSess) (cb : Option Bool) (bucket : Nat) (pos : Pos) : R (List Entry) :=
  if bucket = 0 then .error .panic
  else
    match readRegion d.p cb samplerProcR { bucket := bucket, p := d.p } region pos.start pos.stop pos.firstFull with
    | .ok c => .ok c.rev.reverse
    | .error e => .error (readErr e)

@[csimp] theorem dataReadResampling_eq_fast : @dataReadResampling = @dataReadResamplingFast := by
  funext region d cb bucket pos
  unfold dataReadResampling dataReadResamplingFast
  by_cases hb : bucket = 0
  · simp [hb]
  · simp only [hb, if_false]
    have h := readRegion_sim Sampler.toR samplerProc samplerProcR sampler_sim d.p cb { bucket := bucket, p := d.p } region
      pos.start pos.stop pos.firstFull
    have h0 : Sampler.toR { bucket := bucket, p := d.p } = ({ bucket := bucket, p := d.p } : SamplerR) := rfl
    rw [h0] at h
    rw [h]
    cases readRegion d.p cb samplerProc { bucket := bucket, p := d.p } region pos.start pos.stop pos.firstFull with
    | ok c => simp [Sampler.toR]
    | error e => simp [readErr_map]

end BS.Impl
