/-
  The specification as a state machine over the same op scripts: what each public
  call has to return according to the property statements, as a function of the
  abstract series (the list of accepted entries) only.  No bytes-level state except
  where a property speaks about file bytes (`files`), and there the bytes are those
  of the canonical encoder of `BS/Spec.lean`.

  The expectation is a line interpreted by lib/judge.py:
    `= <text>`            the observation must be exactly <text>
    `~none`               no expectation for this op
    `~empty`              `ok -` or a range error
    `~err <Detail>`       an error whose detail is <Detail>
    `~readn n=<n> <es>`   uniform bucket means of <es>, at most 2n of them
    `~nlines k=<k> slack=<m>`
    `~files r=len:hash …` the listed roles must have exactly these bytes
    `~sub <es>`           (after damage, with consent) a sublist of <es> …
-/
import BS.Spec
import BS.Impl.World

namespace BS.SpecW

open BS.Spec
open BS.Impl (Op Role hexOf fmtEntries hex16 fnv roleName lcgBytes)

structure SpecWorld where
  created : Bool := false
  p : Nat := 0
  hdr : Bytes := []
  log : List Entry := []
  isOpen : Bool := false
  /-- cache levels of the current session -/
  caches : List Nat := []
  /-- set by ops whose effect the specification does not define (damage, garbage files) -/
  tainted : Bool := false
  /-- corruption consent of the current session -/
  cb : Option Bool := none
  /-- `some k`: the second marker line of section `k` (0-based) was overwritten (C18) -/
  damaged : Option Nat := none
  /-- `some j`: the 16-bit delta of data line `j` (0-based entry number; not the first line of its section,
  the next line lies in the same section) was overwritten with the lone-marker pattern `FF FF` (C18) -/
  damagedLine : Option Nat := none
  /-- false once the source was cut while caches existed: a cache may then keep one
  deviating bucket for good (C09), so cache bytes are no longer prescribed exactly -/
  cachesExact : Bool := true
  /-- the numbers of surviving lines at each cut of the source so far (C09: the bucket straddling
  such a point, and only that bucket, may deviate in a cache for good) -/
  tears : List Nat := []
  snapTears : List (Nat × List Nat) := []
  /-- true from a successful `new` / `open` until the script touches a file: the caches are then what the
  session left, so their content is prescribed (bucket for bucket, see `.get`) -/
  settled : Bool := false
  /-- files the script planted while no series existed (role name, bytes) -/
  stale : List (String × Bytes) := []
  /-- the data file was planted by the script (C07, reverse direction): it conforms to the
  documented layout and decodes to `log`, but its bytes need not be the canonical encoding -/
  foreign : Bool := false
  snaps : List (Nat × Bool × Nat × Bytes × List Entry × Bool × Bool) := []
deriving Inhabited

def toBound : Impl.Bound → Bound
  | .incl t => .incl t
  | .excl t => .excl t
  | .unb => .unb

def hdrLen (w : SpecWorld) : Nat := (fileHeader w.p w.hdr).length

def expectEntries (es : List Entry) : String :=
  if es.isEmpty then "~empty" else "= " ++ fmtEntries es

def cacheFile (p B : Nat) (log : List Entry) : Bytes :=
  outerHeader (cacheUserHeader "s".toUTF8.toList B) ++ encode p (bucketMeans B (linMean p) log)

def cacheIndexFile (p B : Nat) (log : List Entry) : Bytes :=
  indexFile p (bucketMeans B (linMean p) log)

def fileItem (name : String) (b : Bytes) : String :=
  s!" {name}={b.length}:{hex16 (fnv b)}"

/-- section slots (in lines) at or inside the range: sections whose entry is in range,
or that directly follow an entry in range -/
def slackLines (p : Nat) (s e : Bound) (log : List Entry) : Nat :=
  let secs := sections p log
  let inRange := fun (t : Nat) => s.okStart t && e.okEnd t
  let sel := filterBounds s e log
  match sel.head?, sel.getLast? with
  | some a, some b =>
    (secs.filter fun sc => decide (a.ts ≤ sc.1) && decide (sc.1 ≤ b.ts) || inRange sc.1).length * secLines p
  | _, _ => 0

/-- (byte offset of the line in the data region, is it the first line of its section) for every entry,
following the canonical encoder's section rule -/
def lineOffsetsFrom (p : Nat) : Option Nat → Nat → List Entry → List (Nat × Bool)
  | _, _, [] => []
  | none, off, e :: es => (off + secSize p, true) :: lineOffsetsFrom p (some e.ts) (off + secSize p + lineSize p) es
  | some f, off, e :: es =>
    if e.ts - f ≤ maxDelta then (off, false) :: lineOffsetsFrom p (some f) (off + lineSize p) es
    else (off + secSize p, true) :: lineOffsetsFrom p (some e.ts) (off + secSize p + lineSize p) es

def step (w : SpecWorld) (op : Op) : SpecWorld × String :=
  -- any op that touches a file behind the library's back ends the state the last session left
  let w := match op with
    | .cut .. | .rm .. | .put .. | .damage .. => { w with settled := false }
    | _ => w
  if w.damagedLine.isSome && !w.tainted then
    -- C18: the delta of one data line reads `FF FF` (a lone marker line).  A read that SPANS it - the genuine
    -- lines directly before and after it, both in its section, are in range - meets the damage
    match op, w.damagedLine with
    | .readAll s e, some j =>
      if !w.isOpen then (w, "~none") else
      let sel := filterBounds (toBound s) (toBound e) w.log
      match w.log[j - 1]?, w.log[j + 1]? with
      | some a, some b =>
        if j ≥ 1 && sel.contains a && sel.contains b then
          if w.cb == some true then
            -- nothing fabricated; everything from the next section on (if the range reaches it) is there
            let offs := lineOffsetsFrom w.p none 0 w.log
            let nextSec := ((offs.drop (j + 1)).findIdx? (·.2)).map (· + j + 1)
            let from_ := match nextSec.bind (fun i => w.log[i]?) with
              | some first => (sel.takeWhile (fun (x : Entry) => decide (x.ts < first.ts))).length
              | none => sel.length
            (w, s!"~sub from={from_} " ++ fmtEntries sel)
          else (w, "~err CorruptMetaSection")
        else (w, "~none")
      | _, _ => (w, "~none")
    | .close, _ => ({ w with isOpen := false }, "~none")
    | .open _ _ caches cb _, _ => ({ w with isOpen := true, caches := caches, cb := cb }, "~none")
    | .restore k, _ =>
      match w.snaps.find? (·.1 == k) with
      | some (_, c, p, h, l, t, ce) => ({ w with created := c, p := p, hdr := h, log := l, tainted := t, cachesExact := ce, damaged := none, damagedLine := none, isOpen := false, settled := false, tears := ((w.snapTears.find? (·.1 == k)).map (·.2)).getD [] }, "~none")
      | none => (w, "~none")
    | .push .., _ | .pushrun .., _ | .cut .., _ | .rm .., _ | .put .., _ | .damage .., _ | .new .., _ =>
      ({ w with tainted := true }, "~none")
    | _, _ => (w, "~none")
  else
  if w.damaged.isSome && !w.tainted then
    -- C18: one damaged section; only full reads have an expectation
    match op, w.damaged with
    | .readAll .unb .unb, some k =>
      if !w.isOpen then (w, "~none") else
      if w.cb == some true then
        -- everything from the next intact section on must be there, nothing fabricated
        let secs := sections w.p w.log
        let from_ := match secs[k + 1]? with
          | some sc => (w.log.takeWhile (fun (e : Entry) => decide (e.ts < sc.1))).length
          | none => w.log.length
        (w, s!"~sub from={from_} " ++ fmtEntries w.log)
      else (w, "~err CorruptMetaSection")
    | .close, _ => ({ w with isOpen := false }, "~none")
    | .open _ _ caches cb _, _ => ({ w with isOpen := true, caches := caches, cb := cb }, "~none")
    | .restore k, _ =>
      match w.snaps.find? (·.1 == k) with
      | some (_, c, p, h, l, t, ce) => ({ w with created := c, p := p, hdr := h, log := l, tainted := t, cachesExact := ce, damaged := none, damagedLine := none, isOpen := false, settled := false, tears := ((w.snapTears.find? (·.1 == k)).map (·.2)).getD [] }, "~none")
      | none => (w, "~none")
    | _, _ => (w, "~none")
  else
  if w.tainted then
    match op with
    | .restore k =>
      match w.snaps.find? (·.1 == k) with
      | some (_, c, p, h, l, t, ce) => ({ w with created := c, p := p, hdr := h, log := l, tainted := t, cachesExact := ce, damaged := none, damagedLine := none, isOpen := false, settled := false, tears := ((w.snapTears.find? (·.1 == k)).map (·.2)).getD [] }, "~none")
      | none => (w, "~none")
    | .close => ({ w with isOpen := false }, "~none")
    | .open .. => ({ w with isOpen := true }, "~none")
    | _ => (w, "~none")
  else
  match op with
  | .bad => (w, "~none")
  | .new p hdr caches =>
    if w.isOpen then (w, "~none") else
    let user := hdr.getD []
    -- two reasons to refuse at once: the property does not say which one is reported
    if w.created && (innerHeader p user).length > 65535 then (w, "~err AlreadyExists|HeaderTooLarge")
    else if w.created then (w, "~err AlreadyExists")
    else if (innerHeader p user).length > 65535 then (w, "~err HeaderTooLarge")
    else if w.stale.any (fun (n, _) => n == "index" || caches.any (fun B => n == s!"c{B}" || n == s!"c{B}i")) then
      (w, "~err AlreadyExists")
    else ({ w with created := true, p := p, hdr := user, log := [], isOpen := true, caches := caches, cb := none, settled := true, tears := [] },
          s!"= ok p={p} hdr={hexOf user}")
  | .open p hdr caches cb _ =>
    if w.isOpen then (w, "~none") else
    if !w.created then (w, "~err NotFound")
    else if p.isSome && p != some w.p then (w, "~err PayloadSizeChanged")
    else if hdr.isSome && hdr != some w.hdr then (w, "~err Mismatch")
    else ({ w with isOpen := true, caches := caches, cb := cb, settled := true }, s!"= ok p={w.p} hdr={hexOf w.hdr}")
  | .close => ({ w with isOpen := false }, if w.isOpen then "= ok" else "~none")
  | .push ts pl =>
    if !w.isOpen then (w, "~none") else
    if pl.length ≠ w.p then (w, "~err WrongLineLength")
    else match w.log.getLast? with
      | some l => if l.ts < ts then ({ w with log := w.log ++ [⟨ts, pl⟩] }, "= ok") else (w, "~err TimeNotAfterLast")
      | none => ({ w with log := w.log ++ [⟨ts, pl⟩] }, "= ok")
  | .pushrun ts0 stp count seed =>
    if !w.isOpen then (w, "~none") else
    let rec go (i fuel ts : Nat) (seed : UInt64) (log : List Entry) (acc : List Entry) : List Entry × String :=
      match fuel with
      | 0 => (log ++ acc.reverse, s!"= ok {count}")
      | fuel+1 =>
        let (pl, seed') := lcgBytes w.p seed
        let last := match acc with
          | a :: _ => some a.ts
          | [] => log.getLast?.map (·.ts)
        let ok := match last with
          | some l => decide (l < ts)
          | none => true
        if !ok then (log ++ acc.reverse, s!"= fail@{i} TimeNotAfterLast/TimeNotAfterLast")
        else if ts + stp < 2^64 then go (i+1) fuel (ts + stp) seed' log (⟨ts, pl⟩ :: acc)
        else (log ++ (⟨ts, pl⟩ :: acc).reverse, s!"= ok {i+1}")
    let (log', out) := go 0 count ts0 (UInt64.ofNat seed) w.log []
    ({ w with log := log' }, out)
  | .readAll s e =>
    if !w.isOpen then (w, "~none") else
    (w, expectEntries (filterBounds (toBound s) (toBound e) w.log))
  | .readFirstN n s e =>
    if !w.isOpen then (w, "~none") else
    (w, expectEntries ((filterBounds (toBound s) (toBound e) w.log).take n))
  | .readN n s e =>
    if !w.isOpen then (w, "~none") else
    let sel := filterBounds (toBound s) (toBound e) w.log
    if n = 0 then (w, "~empty")
    else if w.caches.isEmpty then (w, s!"~readn n={n} caches=0 " ++ fmtEntries sel)
    else
      let bs (b : Impl.Bound) : String := match b with
        | .incl t => s!"I:{t}" | .excl t => s!"E:{t}" | .unb => "U"
      (w, s!"~readnc n={n} s={bs s} e={bs e} p={w.p} caches={",".intercalate (w.caches.map toString)} " ++ fmtEntries w.log)
  | .nLines s e =>
    if !w.isOpen then (w, "~none") else
    let sel := filterBounds (toBound s) (toBound e) w.log
    (w, s!"~nlines k={sel.length} slack={slackLines w.p (toBound s) (toBound e) w.log}")
  | .lastLine =>
    if !w.isOpen then (w, "~none") else
    match w.log.getLast? with
    | some l => (w, s!"= ok {l.ts}:{hexOf l.pl}")
    | none => (w, "~err NoData")
  | .len => if !w.isOpen then (w, "~none") else (w, s!"= ok {w.log.length}")
  | .isEmpty => if !w.isOpen then (w, "~none") else (w, s!"= ok {w.log.isEmpty}")
  | .range =>
    if !w.isOpen then (w, "~none") else
    match w.log.head?, w.log.getLast? with
    | some a, some b => (w, s!"= ok {a.ts}..={b.ts}")
    | _, _ => (w, "= ok none")
  | .payloadSize => if !w.isOpen then (w, "~none") else (w, s!"= ok {w.p}")
  | .flush => if !w.isOpen then (w, "~none") else (w, "= ok")
  | .page n =>
    if !w.isOpen then (w, "~none") else
    if n = 0 then (w, "~none") else (w, "= " ++ fmtEntries w.log)
  | .files =>
    if !w.created then
      let items := (w.stale.toArray.qsort (fun a b => a.1 < b.1)).toList
      (w, "= ok" ++ String.join (items.map fun (n, b) => fileItem n b))
    else if w.foreign then (w, "~none")
    else
    let items := fileItem "data" (dataFile w.p w.hdr w.log) ++ fileItem "index" (indexFile w.p w.log)
    let citems := (if w.cachesExact then w.caches else []).map fun B =>
      fileItem s!"c{B}" (cacheFile w.p B w.log) ++ fileItem s!"c{B}i" (cacheIndexFile w.p B w.log)
    (w, "~files" ++ items ++ String.join citems)
  | .cut r len =>
    if w.isOpen then (w, "~none") else
    match r with
    | .data =>
      if !w.created then (w, "~none")
      else if len ≥ (dataFile w.p w.hdr w.log).length then (w, "~none")
      else if len < hdrLen w then ({ w with tainted := true }, "~none")
      else
        let n := linesWithin w.p w.log (len - hdrLen w)
        ({ w with log := w.log.take n, cachesExact := false, tears := n :: w.tears, settled := false }, "~none")
    | _ => (w, "~none")
  | .rm r =>
    if w.isOpen then (w, "~none") else
    match r with
    | .data => ({ w with tainted := true }, "~none")
    | _ => (w, "~none")
  | .put r b =>
    if !w.created then
      match r with
      | .data =>
        -- a file laid out as documented is a series: the independent reference decoder says which
        match refDecodeFile b with
        | some (user, p, xs) =>
          let sorted := (xs.zip (xs.drop 1)).all fun (a, c) => decide (a.ts < c.ts)
          if sorted && xs.all (fun e => e.pl.length == p) then
            ({ w with created := true, p := p, hdr := user, log := xs, foreign := true }, "~none")
          else ({ w with tainted := true }, "~none")
        | none => ({ w with tainted := true }, "~none")
      | _ => ({ w with stale := (roleName r, b) :: w.stale.filter (·.1 != roleName r) }, "~none")
    else
    match r with
    | .data => ({ w with tainted := true }, "~none")
    | .cdata _ => ({ w with tainted := true }, "~none")
    | _ => (w, "~none")
  | .damage r off b =>
    match r with
    | .index => (w, "~none")
    | .part => (w, "~none")
    | .data =>
      -- the one damage C18 speaks about: the marker bytes of the SECOND marker line of a section
      let secs := sections w.p w.log
      let hit := secs.findIdx? fun sc => hdrLen w + sc.2 + lineSize w.p == off
      match hit with
      | some k =>
        -- a full read starts after the first section and never meets it: no expectation for k = 0
        if b.length = 2 && !(isMarker b) && k < secs.length && k > 0 then ({ w with damaged := some k }, "~none")
        else ({ w with tainted := true }, "~none")
      | none =>
        -- the other damage C18 speaks about: the delta field of a data line becomes `FF FF`
        let offs := lineOffsetsFrom w.p none 0 w.log
        match offs.findIdx? (fun (o : Nat × Bool) => hdrLen w + o.1 == off) with
        | some j =>
          let inner := match offs[j]?, offs[j + 1]? with
            | some (_, false), some (_, false) => true
            | _, _ => false
          if b == [255, 255] && inner && !w.isOpen then ({ w with damagedLine := some j }, "~none")
          else ({ w with tainted := true }, "~none")
        | none => ({ w with tainted := true }, "~none")
    | _ => ({ w with tainted := true }, "~none")
  | .get r =>
    -- C09, bucket for bucket: a cache left by a session is the cache of one uninterrupted session, except -
    -- after the source was cut with `n` lines surviving - for the bucket `n / B` straddling that point
    match r with
    | .cdata B =>
      if w.isOpen || !w.created || w.foreign || !w.settled || !w.caches.contains B || B = 0 then (w, "~none")
      else
        let hl := (outerHeader (cacheUserHeader "s".toUTF8.toList B)).length
        let dev := (if w.cachesExact then [] else w.tears.map (· / B)).eraseDups
        (w, s!"~buckets hdr={hl} p={w.p} dev={",".intercalate (dev.map toString)} " ++ fmtEntries (bucketMeans B (linMean w.p) w.log))
    | _ => (w, "~none")
  | .save k =>
    ({ w with snaps := (k, w.created, w.p, w.hdr, w.log, w.tainted, w.cachesExact) :: w.snaps.filter (·.1 != k),
               snapTears := (k, w.tears) :: w.snapTears.filter (·.1 != k) }, "~none")
  | .restore k =>
    match w.snaps.find? (·.1 == k) with
    | some (_, c, p, h, l, t, ce) => ({ w with created := c, p := p, hdr := h, log := l, tainted := t, cachesExact := ce, isOpen := false, settled := false, tears := ((w.snapTears.find? (·.1 == k)).map (·.2)).getD [] }, "~none")
    | none => (w, "~none")

end BS.SpecW
