/-
  Parser of the op-script line protocol (DESIGN.md §4.1) shared by model and spec.
-/
import BS.Impl.World

namespace BS.Script

open BS.Impl

def hexVal (c : Char) : Option Nat :=
  if '0' ≤ c ∧ c ≤ '9' then some (c.toNat - 48)
  else if 'a' ≤ c ∧ c ≤ 'f' then some (c.toNat - 87)
  else if 'A' ≤ c ∧ c ≤ 'F' then some (c.toNat - 55)
  else none

def unhex (s : String) : Option Bytes :=
  if s == "-" then some [] else
  let rec go : List Char → Option Bytes
    | [] => some []
    | [_] => none
    | a :: b :: rest =>
      match hexVal a, hexVal b, go rest with
      | some h, some l, some t => some (UInt8.ofNat (h * 16 + l) :: t)
      | _, _, _ => none
  go s.toList

def kv (tokens : List String) (key : String) : Option String :=
  tokens.findSome? fun t =>
    match t.splitOn "=" with
    | [k, v] => if k == key then some v else none
    | _ => none

def parseBound (s : String) : Option Bound :=
  if s == "U" then some .unb else
  match s.splitOn ":" with
  | ["I", v] => v.toNat?.map .incl
  | ["E", v] => v.toNat?.map .excl
  | _ => none

def parseRole (s : String) : Option Role :=
  match s with
  | "data" => some .data
  | "index" => some .index
  | "part" => some .part
  | _ =>
    match s.toList with
    | 'c' :: rest =>
      let str := String.ofList rest
      if str.endsWith "i" then ((str.dropEnd 1).toString.toNat?).map .cindex
      else if str.endsWith "p" then ((str.dropEnd 1).toString.toNat?).map .cpart
      else str.toNat?.map .cdata
    | _ => none

def parseCaches (s : String) : List Nat :=
  if s == "-" || s.isEmpty then [] else (s.splitOn ",").filterMap (·.toNat?)

def parseOp (line : String) : Op :=
  let tokens := (line.trimAscii.toString.splitOn " ").filter (· ≠ "")
  match tokens with
  | [] => .bad
  | cmd :: args =>
    let get := kv args
    let r : Option Op :=
      match cmd with
      | "new" => do
        let p ← (← get "p").toNat?
        -- `hdr=a>b>..` is a chain of builder calls: the last one decides
        let hdr ← match (get "hdr").map (fun h => (h.splitOn ">").getLast?.getD h) with
          | some "any" | none => some none
          | some h => (unhex h).map some
        pure (.new p hdr (parseCaches ((get "caches").getD "-")))
      | "open" => do
        let p ← match get "p" with
          | some "any" | none => some none
          | some v => v.toNat?.map some
        -- `hdr=a>b>..` is a chain of builder calls: the last one decides
        let hdr ← match (get "hdr").map (fun h => (h.splitOn ">").getLast?.getD h) with
          | some "any" | none => some none
          | some h => (unhex h).map some
        let cb := match get "cb" with
          | some "T" => some true
          | some "F" => some false
          | _ => none
        pure (.open p hdr (parseCaches ((get "caches").getD "-")) cb ((get "ext") == some "1"))
      | "close" => some .close
      | "push" => do pure (.push (← (← get "ts").toNat?) (← unhex (← get "pl")))
      | "pushrun" => do
        pure (.pushrun (← (← get "ts0").toNat?) (← (← get "step").toNat?) (← (← get "count").toNat?) (← (← get "seed").toNat?))
      | "read_all" => do pure (.readAll (← parseBound (← get "s")) (← parseBound (← get "e")))
      | "read_first_n" => do pure (.readFirstN (← (← get "n").toNat?) (← parseBound (← get "s")) (← parseBound (← get "e")))
      | "read_n" => do pure (.readN (← (← get "n").toNat?) (← parseBound (← get "s")) (← parseBound (← get "e")))
      | "n_lines" => do pure (.nLines (← parseBound (← get "s")) (← parseBound (← get "e")))
      | "last_line" => some .lastLine
      | "len" => some .len
      | "is_empty" => some .isEmpty
      | "flush" => some .flush
      | "range" => some .range
      | "payload_size" => some .payloadSize
      | "page" => do pure (.page (← (← get "n").toNat?))
      | "files" => some .files
      | "cut" => match args with
        | [r, l] => do pure (.cut (← parseRole r) (← l.toNat?))
        | _ => none
      | "rm" => match args with
        | [r] => do pure (.rm (← parseRole r))
        | _ => none
      | "put" => match args with
        | [r, b] => do pure (.put (← parseRole r) (← unhex b))
        | _ => none
      | "get" => match args with
        | [r] => do pure (.get (← parseRole r))
        | _ => none
      | "damage" => match args with
        | [r, o, b] => do pure (.damage (← parseRole r) (← o.toNat?) (← unhex b))
        | _ => none
      | "save" => match args with
        | [k] => do pure (.save (← k.toNat?))
        | _ => none
      | "restore" => match args with
        | [k] => do pure (.restore (← k.toNat?))
        | _ => none
      | _ => none
    r.getD .bad

end BS.Script
