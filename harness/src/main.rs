//! bsrun: drives the real byteseries library from an op script (one op per line)
//! and prints one canonical observation line per op.  See /verif/DESIGN.md §4.1.
//!
//! usage: bsrun <series-dir> < script
use std::collections::BTreeMap;
use std::fs;
use std::io::{BufRead, Write};
use std::ops::Bound;
use std::panic::{catch_unwind, AssertUnwindSafe};
use std::path::{Path, PathBuf};

use byteseries::downsample::Config;
use byteseries::{ByteSeries, Decoder, Encoder, ResampleState, Resampler};

// ---------------------------------------------------------------- codecs

#[derive(Debug, Clone)]
struct Copy;
impl Decoder for Copy {
    type Item = Vec<u8>;
    fn decode_payload(&mut self, payload: &[u8]) -> Vec<u8> {
        payload.to_vec()
    }
}

/// integer resampler: value = LE integer of the first min(p,4) payload bytes,
/// mean = floor(sum / n), encoded back into min(p,4) bytes, zero padded to p.
#[derive(Debug, Clone)]
struct Lin {
    p: usize,
}
impl Decoder for Lin {
    type Item = u64;
    fn decode_payload(&mut self, payload: &[u8]) -> u64 {
        let k = payload.len().min(4);
        let mut v = 0u64;
        for i in (0..k).rev() {
            v = v * 256 + u64::from(payload[i]);
        }
        v
    }
}
impl Encoder for Lin {
    type Item = u64;
    fn encode_item(&mut self, item: &u64) -> Vec<u8> {
        let k = self.p.min(4);
        let mut out = vec![0u8; self.p];
        let mut v = *item;
        for b in out.iter_mut().take(k) {
            *b = (v % 256) as u8;
            v /= 256;
        }
        out
    }
}
impl Resampler for Lin {
    type State = u64;
    fn state(&self) -> u64 {
        0
    }
}
/// Three-channel variants of `Lin` over the library's OTHER `ResampleState` impls (array, `Vec`,
/// spilled `SmallVec`): every channel carries the same decoded value, the encoder writes the XOR of
/// the three channels - the channel value when all agree, something else when one of them was not
/// added / divided / reset like the others.  Same files as `Lin` as long as the library is right.
fn lin_decode(payload: &[u8]) -> u64 {
    let k = payload.len().min(4);
    let mut v = 0u64;
    for i in (0..k).rev() {
        v = v * 256 + u64::from(payload[i]);
    }
    v
}
fn lin_encode(p: usize, item: u64) -> Vec<u8> {
    let k = p.min(4);
    let mut out = vec![0u8; p];
    let mut v = item;
    for b in out.iter_mut().take(k) {
        *b = (v % 256) as u8;
        v /= 256;
    }
    out
}
macro_rules! lin_variant {
    ($name:ident, $ty:ty, $mk:expr, $zero:expr) => {
        #[derive(Debug, Clone)]
        struct $name {
            p: usize,
        }
        impl Decoder for $name {
            type Item = $ty;
            fn decode_payload(&mut self, payload: &[u8]) -> $ty {
                let v = lin_decode(payload);
                let f: fn(u64) -> $ty = $mk;
                f(v)
            }
        }
        impl Encoder for $name {
            type Item = $ty;
            fn encode_item(&mut self, item: &$ty) -> Vec<u8> {
                lin_encode(self.p, item.iter().fold(0u64, |a, b| a ^ *b))
            }
        }
        impl Resampler for $name {
            type State = $ty;
            fn state(&self) -> $ty {
                let f: fn(u64) -> $ty = $mk;
                f($zero)
            }
        }
    };
}
lin_variant!(LinArr, [u64; 3], |v| [v, v, v], 0);
lin_variant!(LinVec, Vec<u64>, |v| vec![v, v, v], 0);
lin_variant!(LinSv, smallvec::SmallVec<u64, 2>, |v| smallvec::SmallVec::from_iter([v, v, v]), 0);

// make sure the trait is the library's own impl for u64
fn _assert_state<T: ResampleState<Item = u64>>() {}
fn _check() {
    _assert_state::<u64>();
}

// ---------------------------------------------------------------- helpers

fn hex(b: &[u8]) -> String {
    if b.is_empty() {
        return "-".to_string();
    }
    let mut s = String::with_capacity(b.len() * 2);
    for x in b {
        s.push_str(&format!("{x:02x}"));
    }
    s
}

fn unhex(s: &str) -> Option<Vec<u8>> {
    if s == "-" {
        return Some(Vec::new());
    }
    if s.len() % 2 != 0 {
        return None;
    }
    let mut out = Vec::with_capacity(s.len() / 2);
    let b = s.as_bytes();
    for i in (0..b.len()).step_by(2) {
        let h = (b[i] as char).to_digit(16)?;
        let l = (b[i + 1] as char).to_digit(16)?;
        out.push((h * 16 + l) as u8);
    }
    Some(out)
}

fn fnv(b: &[u8]) -> u64 {
    let mut h: u64 = 0xcbf29ce484222325;
    for x in b {
        h ^= u64::from(*x);
        h = h.wrapping_mul(0x100000001b3);
    }
    h
}

/// payload bytes of `pushrun`: fixed LCG, identical in the Lean driver
fn lcg_next(state: &mut u64) -> u8 {
    *state = state
        .wrapping_mul(6364136223846793005)
        .wrapping_add(1442695040888963407);
    (*state >> 33) as u8
}

fn kv(tokens: &[&str]) -> BTreeMap<String, String> {
    let mut m = BTreeMap::new();
    for t in tokens {
        if let Some((k, v)) = t.split_once('=') {
            m.insert(k.to_string(), v.to_string());
        }
    }
    m
}

fn bound(s: &str) -> Option<Bound<u64>> {
    if s == "U" {
        return Some(Bound::Unbounded);
    }
    let (k, v) = s.split_once(':')?;
    let v: u64 = v.parse().ok()?;
    match k {
        "I" => Some(Bound::Included(v)),
        "E" => Some(Bound::Excluded(v)),
        _ => None,
    }
}

fn class_of(dbg: &str) -> String {
    // top-level variant name + the most specific known keyword
    let top: String = dbg
        .chars()
        .take_while(|c| c.is_alphanumeric() || *c == '_')
        .collect();
    const KEYS: &[&str] = &[
        "WrongLineLength",
        "TimeNotAfterLast",
        "EmptyFile",
        "StartAfterData",
        "StopBeforeData",
        "StartBeforeStop",
        "CorruptMetaSection",
        "NoData",
        "PayloadSizeChanged",
        "VersionMismatch",
        "HeaderTooLarge",
        "AlreadyExists",
        "NotFound",
        "Mismatch",
        "OutOfOrder",
        "TooMuchToResample",
        "UnexpectedEof",
    ];
    if top == "Header" {
        return if dbg.starts_with("Header(Mismatch") { "Header/Mismatch".into() } else { "Header/Other".into() };
    }
    for k in KEYS {
        if dbg.contains(k) {
            return format!("{top}/{k}");
        }
    }
    format!("{top}/Other")
}

/// `pre=k`: the caller's vectors already hold k items (the read calls append); the k items must
/// come back untouched and are not part of the observation
fn prefilled(a: &BTreeMap<String, String>) -> (Vec<u64>, Vec<Vec<u8>>, usize) {
    let k: usize = a.get("pre").and_then(|v| v.parse().ok()).unwrap_or(0);
    ((0..k as u64).map(|i| 7_000_000 + i).collect(), (0..k).map(|i| vec![0xEE, i as u8]).collect(), k)
}

fn fmt_appended(ts: &[u64], pl: &[Vec<u8>], k: usize) -> String {
    let intact = ts.len() >= k
        && pl.len() >= k
        && (0..k).all(|i| ts[i] == 7_000_000 + i as u64 && pl[i] == vec![0xEE, i as u8]);
    if !intact {
        return "err caller-items-changed".to_string();
    }
    fmt_entries(&ts[k..], &pl[k..])
}

fn fmt_entries(ts: &[u64], pl: &[Vec<u8>]) -> String {
    if ts.is_empty() {
        return "ok -".to_string();
    }
    let mut s = String::from("ok ");
    for (i, (t, p)) in ts.iter().zip(pl.iter()).enumerate() {
        if i > 0 {
            s.push(',');
        }
        s.push_str(&format!("{t}:{}", hex(p)));
    }
    if ts.len() != pl.len() {
        s.push_str(&format!(" LENMISMATCH {} {}", ts.len(), pl.len()));
    }
    s
}

// ---------------------------------------------------------------- runner

struct Runner {
    dir: PathBuf,
    series: Option<ByteSeries>,
    p: usize,
    /// `gaps=g` on new/open: every cache level is configured TWICE, with max_gap None and Some(g).  The
    /// library stores max_gap in the file name only, so the twin must hold the same lines; `files` checks that
    /// (the None level is what the model and the specification speak about) and reports a twin that is
    /// missing or differs as an extra role `cgapdiff<B>`
    gaps: Option<(u64, Vec<usize>)>,
}

const NAME: &str = "s";

impl Runner {
    fn role_path(&self, role: &str) -> Option<PathBuf> {
        let f = match role {
            "data" => format!("{NAME}.byteseries"),
            "index" => format!("{NAME}.byteseries_index"),
            "part" => format!("{NAME}.byteseries_index.part"),
            r if r.starts_with('c') => {
                let (num, suffix) = if let Some(n) = r.strip_suffix('i') {
                    (n, "byteseries_index")
                } else if let Some(n) = r.strip_suffix('p') {
                    (n, "byteseries_index.part")
                } else {
                    (r, "byteseries")
                };
                let b: usize = num[1..].parse().ok()?;
                format!("{NAME}_None_{b}.{suffix}")
            }
            _ => return None,
        };
        Some(self.dir.join(f))
    }

    fn role_of(&self, fname: &str) -> String {
        if fname == format!("{NAME}.byteseries") {
            return "data".into();
        }
        if fname == format!("{NAME}.byteseries_index") {
            return "index".into();
        }
        if fname == format!("{NAME}.byteseries_index.part") {
            return "part".into();
        }
        if let Some(rest) = fname.strip_prefix(&format!("{NAME}_None_")) {
            if let Some((b, ext)) = rest.split_once('.') {
                if b.parse::<usize>().is_ok() {
                    match ext {
                        "byteseries" => return format!("c{b}"),
                        "byteseries_index" => return format!("c{b}i"),
                        "byteseries_index.part" => return format!("c{b}p"),
                        _ => {}
                    }
                }
            }
        }
        format!("other:{fname}")
    }

    fn snapshot(&self) -> BTreeMap<String, Vec<u8>> {
        let mut m = BTreeMap::new();
        if let Ok(rd) = fs::read_dir(&self.dir) {
            for e in rd.flatten() {
                let name = e.file_name().to_string_lossy().to_string();
                m.insert(self.role_of(&name), fs::read(e.path()).unwrap_or_default());
            }
        }
        m
    }

    fn files(&self) -> String {
        let mut v: Vec<(String, String)> = Vec::new();
        if let Ok(rd) = fs::read_dir(&self.dir) {
            for e in rd.flatten() {
                let name = e.file_name().to_string_lossy().to_string();
                if self.gaps.is_some() && name.starts_with(&format!("{NAME}_Some(")) {
                    continue; // the twins are judged below, against their None level
                }
                let role = self.role_of(&name);
                let bytes = fs::read(e.path()).unwrap_or_default();
                v.push((role, format!("{}:{:016x}", bytes.len(), fnv(&bytes))));
            }
        }
        if let Some((g, sizes)) = &self.gaps {
            for b in sizes {
                for (ext, strip) in [("byteseries", true), ("byteseries_index", false)] {
                    let twin = fs::read(self.dir.join(format!("{NAME}_Some({g})_{b}.{ext}")));
                    let base = fs::read(self.dir.join(format!("{NAME}_None_{b}.{ext}")));
                    let same = match (&twin, &base) {
                        (Ok(t), Ok(n)) => {
                            if strip {
                                Self::region(t) == Self::region(n)
                            } else {
                                t == n
                            }
                        }
                        (Err(_), Err(_)) => true,
                        _ => false,
                    };
                    if !same {
                        let what = match &twin {
                            Ok(t) => format!("{}:{:016x}", t.len(), fnv(t)),
                            Err(_) => "absent".to_string(),
                        };
                        v.push((format!("cgapdiff{b}.{ext}"), what));
                    }
                }
            }
        }
        v.sort();
        let mut s = String::from("ok");
        for (r, d) in v {
            s.push_str(&format!(" {r}={d}"));
        }
        s
    }

    fn configs(spec: &str, gap: Option<u64>) -> Vec<Config> {
        if spec == "-" || spec.is_empty() {
            return Vec::new();
        }
        let mut out = Vec::new();
        for b in spec.split(',').filter_map(|b| b.parse::<usize>().ok()) {
            out.push(Config {
                max_gap: None,
                bucket_size: b,
            });
            if let Some(g) = gap {
                out.push(Config {
                    max_gap: Some(g),
                    bucket_size: b,
                });
            }
        }
        out
    }

    fn gap_of(a: &BTreeMap<String, String>) -> Option<u64> {
        a.get("gaps").and_then(|g| g.parse::<u64>().ok())
    }

    fn note_gaps(&mut self, a: &BTreeMap<String, String>) {
        let sizes: Vec<usize> = a
            .get("caches")
            .map_or("-", |s| s.as_str())
            .split(',')
            .filter_map(|b| b.parse::<usize>().ok())
            .collect();
        self.gaps = Self::gap_of(a).map(|g| (g, sizes));
    }

    /// the data region of a file with the documented outer header (u16 length, two line ends, header)
    fn region(bytes: &[u8]) -> &[u8] {
        if bytes.len() < 4 {
            return bytes;
        }
        let n = u16::from_le_bytes([bytes[0], bytes[1]]) as usize;
        bytes.get(4 + n..).unwrap_or(&[])
    }

    fn op_new(&mut self, a: &BTreeMap<String, String>) -> String {
        let p: usize = a["p"].parse().unwrap();
        let caches = Self::configs(a.get("caches").map_or("-", |s| s.as_str()), Self::gap_of(a));
        self.note_gaps(a);
        // `name=`: what the user calls the series; a name with a dot ("s.v2") is stored under its stem
        let user_name = a.get("name").map_or(NAME, |s| s.as_str());
        let path = self.dir.join(user_name);
        // `hdr=a>b>..`: the header options are given by that chain of builder calls, in that order
        // (`any` = with_any_header(), hex = with_header(..)); `rs=`: which resampler feeds the caches
        let hdr = a.get("hdr").map_or("any", |s| s.as_str()).to_string();
        let rs = a.get("rs").map_or("u64", |s| s.as_str()).to_string();
        macro_rules! create {
            ($r:expr) => {{
                let mut b = ByteSeries::builder()
                    .payload_size(p)
                    .create_new(true)
                    .with_downsampled_cache($r, caches)
                    .with_any_header();
                for h in hdr.split('>') {
                    b = match h {
                        "any" => b.with_any_header(),
                        h => b.with_header(unhex(h).unwrap()),
                    };
                }
                b.open(path)
            }};
        }
        let res = match rs.as_str() {
            "arr" => create!(LinArr { p }),
            "vec" => create!(LinVec { p }),
            "sv" => create!(LinSv { p }),
            _ => create!(Lin { p }),
        };
        match res {
            Ok((s, hdr)) => {
                self.p = s.payload_size();
                self.series = Some(s);
                format!("ok p={} hdr={}", self.p, hex(&hdr))
            }
            Err(e) => format!("err {}", class_of(&format!("{e:?}"))),
        }
    }

    fn op_open(&mut self, a: &BTreeMap<String, String>) -> String {
        let caches_spec = a.get("caches").map_or("-", |s| s.as_str()).to_string();
        let gap = Self::gap_of(a);
        self.note_gaps(a);
        let ext = a.get("ext").map_or("0", |s| s.as_str()) == "1";
        let user_name = a.get("name").map_or(NAME, |s| s.as_str());
        let path = if ext {
            self.dir.join(format!("{user_name}.byteseries"))
        } else {
            self.dir.join(user_name)
        };
        let cb = a.get("cb").map_or("none", |s| s.as_str()).to_string();
        let hdr = a.get("hdr").map_or("any", |s| s.as_str()).to_string();
        let pspec = a.get("p").map_or("any", |s| s.as_str()).to_string();

        let rs = a.get("rs").map_or("u64", |s| s.as_str()).to_string();
        macro_rules! finish {
            ($b:expr, $p:expr) => {{
                match rs.as_str() {
                    "arr" => finish!($b, $p, LinArr { p: $p }),
                    "vec" => finish!($b, $p, LinVec { p: $p }),
                    "sv" => finish!($b, $p, LinSv { p: $p }),
                    _ => finish!($b, $p, Lin { p: $p }),
                }
            }};
            ($b:expr, $p:expr, $r:expr) => {{
                let mut b = $b.with_downsampled_cache($r, Self::configs(&caches_spec, gap)).with_any_header();
                for h in hdr.split('>') {
                    b = match h {
                        "any" => b.with_any_header(),
                        h => b.with_header(unhex(h).unwrap()),
                    };
                }
                let b = match cb.as_str() {
                    "T" => b.with_callback_on_recoverable_corruption(Box::new(|| true)),
                    "F" => b.with_callback_on_recoverable_corruption(Box::new(|| false)),
                    _ => b,
                };
                b.open(&path)
            }};
        }

        let res = if pspec == "any" {
            // the resampler needs the payload size to encode; peek it from the
            // preamble text ourselves (only used for the caches' encoder)
            let peek = peek_payload_size(&self.dir.join(format!("{NAME}.byteseries")));
            finish!(ByteSeries::builder().retrieve_payload_size(), peek.unwrap_or(0))
        } else {
            let p: usize = pspec.parse().unwrap();
            finish!(ByteSeries::builder().payload_size(p), p)
        };
        match res {
            Ok((s, hdr)) => {
                self.p = s.payload_size();
                self.series = Some(s);
                format!("ok p={} hdr={}", self.p, hex(&hdr))
            }
            Err(e) => format!("err {}", class_of(&format!("{e:?}"))),
        }
    }

    fn with_series(
        &mut self,
        f: impl FnOnce(&mut ByteSeries, usize) -> String,
    ) -> String {
        let Some(mut s) = self.series.take() else {
            return "closed".to_string();
        };
        let p = self.p;
        let r = catch_unwind(AssertUnwindSafe(|| f(&mut s, p)));
        match r {
            Ok(out) => {
                self.series = Some(s);
                out
            }
            Err(_) => {
                // the series may be in an inconsistent state: drop it
                let _ = catch_unwind(AssertUnwindSafe(move || drop(s)));
                "panic".to_string()
            }
        }
    }

    fn run_op(&mut self, line: &str) -> String {
        let tokens: Vec<&str> = line.split_whitespace().collect();
        if tokens.is_empty() {
            return "bad-op".into();
        }
        let a = kv(&tokens[1..]);
        match tokens[0] {
            "new" => {
                if self.series.is_some() {
                    return "bad-op open".into();
                }
                catch_unwind(AssertUnwindSafe(|| self.op_new(&a)))
                    .unwrap_or_else(|_| "panic".to_string())
            }
            "open" => {
                if self.series.is_some() {
                    return "bad-op open".into();
                }
                catch_unwind(AssertUnwindSafe(|| self.op_open(&a)))
                    .unwrap_or_else(|_| "panic".to_string())
            }
            "close" => {
                if let Some(s) = self.series.take() {
                    match catch_unwind(AssertUnwindSafe(move || drop(s))) {
                        Ok(()) => "ok".into(),
                        Err(_) => "panic".into(),
                    }
                } else {
                    "closed".into()
                }
            }
            "push" => {
                let ts: u64 = a["ts"].parse().unwrap();
                let pl = unhex(&a["pl"]).unwrap();
                self.with_series(|s, _| match s.push_line(ts, &pl) {
                    Ok(()) => "ok".into(),
                    Err(e) => format!("err {}", class_of(&format!("{e:?}"))),
                })
            }
            "pushrun" => {
                let ts0: u64 = a["ts0"].parse().unwrap();
                let step: u64 = a["step"].parse().unwrap();
                let count: u64 = a["count"].parse().unwrap();
                let mut seed: u64 = a["seed"].parse().unwrap();
                self.with_series(|s, p| {
                    let mut ts = ts0;
                    for i in 0..count {
                        let pl: Vec<u8> = (0..p).map(|_| lcg_next(&mut seed)).collect();
                        if let Err(e) = s.push_line(ts, &pl) {
                            return format!("fail@{i} {}", class_of(&format!("{e:?}")));
                        }
                        ts = match ts.checked_add(step) {
                            Some(t) => t,
                            None => return format!("ok {}", i + 1),
                        };
                    }
                    format!("ok {count}")
                })
            }
            "read_all" => {
                let (Some(s), Some(e)) = (bound(&a["s"]), bound(&a["e"])) else {
                    return "bad-op".into();
                };
                let (mut ts, mut d, k) = prefilled(&a);
                self.with_series(|bs, _| {
                    match bs.read_all((s, e), &mut Copy, &mut ts, &mut d) {
                        Ok(()) => fmt_appended(&ts, &d, k),
                        Err(er) => format!("err {}", class_of(&format!("{er:?}"))),
                    }
                })
            }
            "read_first_n" => {
                let (Some(s), Some(e)) = (bound(&a["s"]), bound(&a["e"])) else {
                    return "bad-op".into();
                };
                let n: usize = a["n"].parse().unwrap();
                let (mut ts, mut d, k) = prefilled(&a);
                self.with_series(|bs, _| {
                    match bs.read_first_n(n, &mut Copy, (s, e), &mut ts, &mut d) {
                        Ok(()) => fmt_appended(&ts, &d, k),
                        Err(er) => format!("err {}", class_of(&format!("{er:?}"))),
                    }
                })
            }
            "read_n" => {
                let (Some(s), Some(e)) = (bound(&a["s"]), bound(&a["e"])) else {
                    return "bad-op".into();
                };
                let n: usize = a["n"].parse().unwrap();
                let k: usize = a.get("pre").and_then(|v| v.parse().ok()).unwrap_or(0);
                let rs = a.get("rs").map_or("u64", |s| s.as_str()).to_string();
                macro_rules! read_n_with {
                    ($mk:expr) => {
                        self.with_series(|bs, p| {
                            // `pre=k`: k items are already in the caller's vectors
                            let mut ts: Vec<u64> = (0..k as u64).map(|i| 7_000_000 + i).collect();
                            let mut r = $mk(p);
                            let mut d = Vec::new();
                            for _ in 0..k {
                                d.push(r.decode_payload(&vec![0u8; p]));
                            }
                            match bs.read_n(n, (s, e), &mut r, &mut ts, &mut d, false) {
                                Ok(()) => {
                                    if ts.len() < k || (0..k).any(|i| ts[i] != 7_000_000 + i as u64) {
                                        return "err caller-items-changed".to_string();
                                    }
                                    let enc: Vec<Vec<u8>> =
                                        d[k..].iter().map(|x| r.encode_item(x)).collect();
                                    fmt_entries(&ts[k..], &enc)
                                }
                                Err(er) => format!("err {}", class_of(&format!("{er:?}"))),
                            }
                        })
                    };
                }
                // `rs=`: the resampler's state is the library's number / array / Vec / spilled SmallVec impl
                match rs.as_str() {
                    "arr" => read_n_with!(|p| LinArr { p }),
                    "vec" => read_n_with!(|p| LinVec { p }),
                    "sv" => read_n_with!(|p| LinSv { p }),
                    _ => read_n_with!(|p| Lin { p }),
                }
            }
            "flush" => self.with_series(|bs, _| match bs.flush_to_disk() {
                Ok(()) => "ok".to_string(),
                Err(er) => format!("err {}", class_of(&format!("{er:?}"))),
            }),
            "n_lines" => {
                let (Some(s), Some(e)) = (bound(&a["s"]), bound(&a["e"])) else {
                    return "bad-op".into();
                };
                self.with_series(|bs, _| match bs.n_lines_between((s, e)) {
                    Ok(n) => format!("ok {n}"),
                    Err(er) => format!("err {}", class_of(&format!("{er:?}"))),
                })
            }
            "last_line" => self.with_series(|bs, _| match bs.last_line(&mut Copy) {
                Ok((t, pl)) => format!("ok {t}:{}", hex(&pl)),
                Err(er) => format!("err {}", class_of(&format!("{er:?}"))),
            }),
            "len" => self.with_series(|bs, _| format!("ok {}", bs.len())),
            "is_empty" => self.with_series(|bs, _| format!("ok {}", bs.is_empty())),
            "range" => self.with_series(|bs, _| match bs.range() {
                Some(r) => format!("ok {}..={}", r.start(), r.end()),
                None => "ok none".into(),
            }),
            "payload_size" => self.with_series(|bs, _| format!("ok {}", bs.payload_size())),
            "page" => {
                let n: usize = a["n"].parse().unwrap();
                self.with_series(|bs, _| {
                    // the paging loop of examples/read.rs
                    let mut ts: Vec<u64> = Vec::new();
                    let mut d: Vec<Vec<u8>> = Vec::new();
                    let Some(r) = bs.range() else {
                        return "ok -".to_string();
                    };
                    let mut read_start = *r.start();
                    let fuel = bs.len() + 3;
                    let mut rounds = 0u64;
                    loop {
                        rounds += 1;
                        if rounds > fuel {
                            return format!("err Loop {}", fmt_entries(&ts, &d));
                        }
                        let before = ts.len();
                        match bs.read_first_n(n, &mut Copy, read_start.., &mut ts, &mut d) {
                            Err(byteseries::series::Error::InvalidRange(
                                byteseries::seek::Error::StartAfterData { .. },
                            )) => return fmt_entries(&ts, &d),
                            Err(er) => {
                                return format!("err {}", class_of(&format!("{er:?}")))
                            }
                            Ok(()) => {}
                        }
                        if ts.len() == before {
                            return fmt_entries(&ts, &d);
                        }
                        let Some(last) = ts.last() else {
                            return fmt_entries(&ts, &d);
                        };
                        read_start = match last.checked_add(1) {
                            Some(x) => x,
                            None => return fmt_entries(&ts, &d),
                        };
                    }
                })
            }
            "files" => self.files(),
            "cut" | "rm" | "put" | "damage" | "get" => {
                if self.series.is_some() {
                    return "bad-op open".into();
                }
                let Some(path) = tokens.get(1).and_then(|r| self.role_path(r)) else {
                    return "bad-op role".into();
                };
                match tokens[0] {
                    "rm" => match fs::remove_file(&path) {
                        Ok(()) => "ok".into(),
                        Err(_) => "ok absent".into(),
                    },
                    "cut" => {
                        let len: u64 = tokens[2].parse().unwrap();
                        match fs::OpenOptions::new().write(true).open(&path) {
                            Ok(f) => {
                                let cur = f.metadata().map(|m| m.len()).unwrap_or(0);
                                if len <= cur {
                                    f.set_len(len).unwrap();
                                }
                                "ok".into()
                            }
                            Err(_) => "ok absent".into(),
                        }
                    }
                    "put" => {
                        let b = unhex(tokens[2]).unwrap();
                        fs::write(&path, b).unwrap();
                        "ok".into()
                    }
                    "get" => match fs::read(&path) {
                        Ok(b) => format!("ok {}", hex(&b)),
                        Err(_) => "ok absent".into(),
                    },
                    "damage" => {
                        let off: usize = tokens[2].parse().unwrap();
                        let b = unhex(tokens[3]).unwrap();
                        match fs::read(&path) {
                            Ok(mut cur) => {
                                if off + b.len() <= cur.len() {
                                    cur[off..off + b.len()].copy_from_slice(&b);
                                    fs::write(&path, cur).unwrap();
                                    "ok".into()
                                } else {
                                    "ok out-of-range".into()
                                }
                            }
                            Err(_) => "ok absent".into(),
                        }
                    }
                    _ => unreachable!(),
                }
            }
            "save" | "restore" => {
                if self.series.is_some() {
                    return "bad-op open".into();
                }
                let k = tokens.get(1).copied().unwrap_or("0");
                let snap = self.dir.with_extension(format!("save{k}"));
                let (from, to) = if tokens[0] == "save" {
                    (self.dir.clone(), snap)
                } else {
                    (snap, self.dir.clone())
                };
                if !from.exists() {
                    return "bad-op nosnap".into();
                }
                let _ = fs::remove_dir_all(&to);
                fs::create_dir_all(&to).unwrap();
                for e in fs::read_dir(&from).unwrap().flatten() {
                    fs::copy(e.path(), to.join(e.file_name())).unwrap();
                }
                "ok".into()
            }
            _ => "bad-op".into(),
        }
    }
}

/// how the directory changed over one op: `same`, `append` (every file kept its old
/// content as a prefix, new files may have appeared) or `other`
fn fs_change(a: &BTreeMap<String, Vec<u8>>, b: &BTreeMap<String, Vec<u8>>) -> &'static str {
    if a == b {
        return "same";
    }
    for (k, old) in a {
        match b.get(k) {
            Some(new) if new.len() >= old.len() && &new[..old.len()] == old.as_slice() => {}
            _ => return "other",
        }
    }
    "append"
}

fn peek_payload_size(path: &Path) -> Option<usize> {
    let b = fs::read(path).ok()?;
    let s = String::from_utf8_lossy(&b).to_string();
    let pat = "For this file that is: ";
    let i = s.find(pat)? + pat.len();
    let rest = &s[i..];
    let j = rest.find(' ')?;
    rest[..j].parse().ok()
}

fn main() {
    let dir = PathBuf::from(std::env::args().nth(1).expect("usage: bsrun <dir>"));
    fs::create_dir_all(&dir).unwrap();
    std::panic::set_hook(Box::new(|_| {}));
    let mut r = Runner {
        dir,
        series: None,
        p: 0,
        gaps: None,
    };
    let audit = std::env::var("BSRUN_AUDIT").is_ok();
    let stdin = std::io::stdin();
    let stdout = std::io::stdout();
    for line in stdin.lock().lines() {
        let Ok(line) = line else { break };
        let line = line.trim();
        if line.is_empty() || line.starts_with('#') {
            continue;
        }
        let before = if audit { Some(r.snapshot()) } else { None };
        let out = r.run_op(line);
        let out = match before {
            Some(b) => format!("{out} #fs={}", fs_change(&b, &r.snapshot())),
            None => out,
        };
        let mut o = stdout.lock();
        writeln!(o, "{out}").unwrap();
        o.flush().unwrap();
    }
    // clean snapshots
    if let Some(parent) = r.dir.parent() {
        if let Ok(rd) = fs::read_dir(parent) {
            let stem = r.dir.file_name().unwrap().to_string_lossy().to_string();
            for e in rd.flatten() {
                let n = e.file_name().to_string_lossy().to_string();
                if n.starts_with(&format!("{stem}.save")) {
                    let _ = fs::remove_dir_all(e.path());
                }
            }
        }
    }
}
