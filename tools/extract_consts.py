#!/usr/bin/env python3
"""Regenerate lean/BS/Generated/Consts.lean from the sources of /repo (DESIGN.md §6.2).

Every value is pulled out of the Rust source with an anchored regular expression.
If a pattern no longer matches the extractor exits 3 and names the pattern; the
checks then treat the tie between model and code as broken.
"""
import os, re, sys

REPO = os.environ.get("VERIF_REPO", "/repo")
OUT = os.path.join(os.path.dirname(os.path.abspath(__file__)), "..", "lean", "BS", "Generated", "Consts.lean")


def src(rel):
    with open(os.path.join(REPO, rel), encoding="utf-8") as f:
        return f.read()


def need(pattern, text, what, flags=0):
    m = re.search(pattern, text, flags)
    if not m:
        print(f"extract_consts: pattern lost: {what}", file=sys.stderr)
        sys.exit(3)
    return m


def rust_unescape(lit):
    """contents of a normal Rust string literal -> python str"""
    out = []
    i = 0
    while i < len(lit):
        c = lit[i]
        if c != "\\":
            out.append(c)
            i += 1
            continue
        n = lit[i + 1]
        if n == "n":
            out.append("\n"); i += 2
        elif n == "t":
            out.append("\t"); i += 2
        elif n == "\\":
            out.append("\\"); i += 2
        elif n == '"':
            out.append('"'); i += 2
        elif n == "'":
            out.append("'"); i += 2
        elif n == "\n":
            # line continuation: skip the newline and following whitespace
            i += 2
            while i < len(lit) and lit[i] in " \t\n\r":
                i += 1
        else:
            print(f"extract_consts: unknown escape \\{n}", file=sys.stderr)
            sys.exit(3)
    return "".join(out)


def lean_bytes(b):
    return "[" + ", ".join(str(x) for x in b) + "]"


def main():
    data_rs = src("src/series/data.rs")
    m = need(r"const MAX_SMALL_TS: u64 = \(u16::MAX - (\d+)\) as u64;", data_rs, "MAX_SMALL_TS")
    max_small = 65535 - int(m.group(1))

    meta_rs = src("src/series/data/inline_meta/meta.rs")
    m = need(r"const PREAMBLE: \[u8; 2\] = \[(0b[01_]+|\d+|0x[0-9a-fA-F]+), (0b[01_]+|\d+|0x[0-9a-fA-F]+)\];", meta_rs, "PREAMBLE")
    marker = [int(m.group(1).replace("_", ""), 0), int(m.group(2).replace("_", ""), 0)]
    m = need(r"fn lines_per_metainfo\(payload_size: usize\) -> usize \{\s*match payload_size \{\s*0 => (\d+),\s*1 => (\d+),\s*2 \| 3 => (\d+),\s*4\.\. => (\d+),\s*\}", meta_rs, "lines_per_metainfo")
    lpm = [int(m.group(1)), int(m.group(2)), int(m.group(3)), int(m.group(3)), int(m.group(4))]

    wp_rs = src("src/series/data/inline_meta/with_processor.rs")
    m = need(r"let chunk_size = (\d[\d_]*)usize\.next_multiple_of\(self\.payload_size\.line_size\(\)\);", wp_rs, "reader chunk_size")
    chunk_read = int(m.group(1).replace("_", ""))

    create_rs = src("src/series/data/index/create.rs")
    m = need(r"let chunk_size = (\d[\d_]*)usize\.next_multiple_of\(payload_size\.line_size\(\)\);", create_rs, "extract chunk_size")
    chunk_extract = int(m.group(1).replace("_", ""))
    m = need(r"(\d[\d_]*)u64\s*(?:\.max\([^)]*\))?\s*\.next_multiple_of\(payload_size\.line_size\(\) as u64\)", create_rs, "last_meta window")
    window = int(m.group(1).replace("_", ""))
    m2 = re.search(r"\.max\((\d+) \* overlap as u64\)\s*\.next_multiple_of\(payload_size\.line_size\(\) as u64\)", create_rs)
    window_factor = int(m2.group(1)) if m2 else 0

    file_rs = src("src/file.rs")
    m = need(r'const LINE_ENDS: &\[u8; 2\] = b"((?:\\.|[^"\\])*)";', file_rs, "LINE_ENDS")
    line_ends = rust_unescape(m.group(1)).encode()

    fh_rs = src("src/series/file_header.rs")
    m = need(r"const VERSION: u16 = (\d+);", fh_rs, "VERSION")
    version = int(m.group(1))
    m = need(r'let text = format!\(\s*"((?:\\.|[^"\\])*)"\s*\);', fh_rs, "preamble format!", re.S)
    text = rust_unescape(m.group(1))
    if text.count("{version}") != 1 or text.count("{payload_size}") != 1 or text.count("NUMB_LINES") != 1:
        print("extract_consts: pattern lost: preamble placeholders", file=sys.stderr)
        sys.exit(3)
    # Rust: n_lines = text.lines().count(), computed after formatting (the two
    # substituted numbers contain no newline)
    n_lines = len(text.split("\n")) - (1 if text.endswith("\n") else 0)
    text = text.replace("NUMB_LINES", str(n_lines))
    pre, rest = text.split("{version}")
    mid, post = rest.split("{payload_size}")
    pats = {}
    for name in ["START_PAT", "END_PAT"]:
        pass
    mv = need(r'fn parse_version.*?const START_PAT: &str = "((?:\\.|[^"\\])*)";.*?const END_PAT: &str = "((?:\\.|[^"\\])*)";', fh_rs, "version patterns", re.S)
    mp = need(r'fn parse_payload_size.*?const START_PAT: &str = "((?:\\.|[^"\\])*)";.*?const END_PAT: &str = "((?:\\.|[^"\\])*)";', fh_rs, "payload patterns", re.S)

    ds_rs = src("src/series/downsample.rs")
    m = need(r'fn header\(&self, name: &OsStr\) -> String \{.*?format!\(\s*"((?:\\.|[^"\\])*)"\s*\)', ds_rs, "cache header format!", re.S)
    chdr = rust_unescape(m.group(1))
    if chdr.count("{name}") != 1 or chdr.count("{self:?}") != 1:
        print("extract_consts: pattern lost: cache header placeholders", file=sys.stderr)
        sys.exit(3)
    c_pre, c_rest = chdr.split("{name}")
    c_mid, c_post = c_rest.split("{self:?}")
    need(r'format!\("\{:\?\}_\{\}", self\.max_gap, self\.bucket_size\)', ds_rs, "cache file suffix")
    need(r"pub struct Config \{[^}]*pub max_gap: Option<Timestamp>,[^}]*pub bucket_size: usize,\s*\}", ds_rs, "Config fields", re.S)

    idx_rs = src("src/series/data/index.rs")
    need(r"\.chunks_exact\(16\)", idx_rs, "index entry width 16")

    out = []
    out.append("/- GENERATED by tools/extract_consts.py from /repo/src — do not edit. -/")
    out.append("namespace BS.Gen")
    out.append(f"def maxSmallTs : Nat := {max_small}")
    out.append(f"def marker0 : Nat := {marker[0]}")
    out.append(f"def marker1 : Nat := {marker[1]}")
    out.append(f"def lpm0 : Nat := {lpm[0]}")
    out.append(f"def lpm1 : Nat := {lpm[1]}")
    out.append(f"def lpm2 : Nat := {lpm[2]}")
    out.append(f"def lpm3 : Nat := {lpm[3]}")
    out.append(f"def lpm4 : Nat := {lpm[4]}")
    out.append(f"def chunkRead : Nat := {chunk_read}")
    out.append(f"def chunkExtract : Nat := {chunk_extract}")
    out.append(f"def windowBytes : Nat := {window}")
    out.append(f"def windowOverlapFactor : Nat := {window_factor}")
    out.append(f"def version : Nat := {version}")
    out.append(f"def indexEntry : Nat := 16")
    out.append(f"def lineEnds : List UInt8 := {lean_bytes(line_ends)}")
    out.append(f"def textPre : List UInt8 := {lean_bytes(pre.encode())}")
    out.append(f"def textMid : List UInt8 := {lean_bytes(mid.encode())}")
    out.append(f"def textPost : List UInt8 := {lean_bytes(post.encode())}")
    out.append(f"def versionStart : List UInt8 := {lean_bytes(rust_unescape(mv.group(1)).encode())}")
    out.append(f"def versionEnd : List UInt8 := {lean_bytes(rust_unescape(mv.group(2)).encode())}")
    out.append(f"def payloadStart : List UInt8 := {lean_bytes(rust_unescape(mp.group(1)).encode())}")
    out.append(f"def payloadEnd : List UInt8 := {lean_bytes(rust_unescape(mp.group(2)).encode())}")
    out.append(f"def cacheHdrPre : List UInt8 := {lean_bytes(c_pre.encode())}")
    out.append(f"def cacheHdrMid : List UInt8 := {lean_bytes(c_mid.encode())}")
    out.append(f"def cacheHdrPost : List UInt8 := {lean_bytes(c_post.encode())}")
    out.append("end BS.Gen")
    content = "\n".join(out) + "\n"
    os.makedirs(os.path.dirname(OUT), exist_ok=True)
    old = None
    if os.path.exists(OUT):
        with open(OUT) as f:
            old = f.read()
    if old != content:
        with open(OUT, "w") as f:
            f.write(content)
        print("extract_consts: Consts.lean updated")
    return 0


if __name__ == "__main__":
    sys.exit(main())
