#!/usr/bin/env python3
"""Measure which lines of /repo/src the scripts of the quick tier reach (not part of any check).
usage: tools/coverage.py <instrumented bsrun> <outdir>     (build: see DESIGN.md 14.6)"""
import os, random, subprocess, sys, glob, shutil, concurrent.futures as cf
sys.path.insert(0, "/verif/lib")
import props, gen
BS, OUT = sys.argv[1], sys.argv[2]
os.makedirs(OUT, exist_ok=True)
scripts = []
for pid, cfg in props.PROPS.items():
    g = cfg["gen"](random.Random(1), "quick")
    seen = {s for _, s in g}
    for n, s in cfg["gen"](random.Random(101), "thorough"):
        if s not in seen:
            g.append((n, s))
    scripts += [(pid, n, s) for n, s in g]
for fn in sorted(glob.glob("/verif/findings/*.ops")):
    scripts.append(("F", os.path.basename(fn), open(fn).read()))
print(len(scripts), "scripts")

def run(i):
    pid, n, s = scripts[i]
    d = os.path.join(OUT, f"d{i}")
    os.makedirs(d, exist_ok=True)
    env = dict(os.environ, LLVM_PROFILE_FILE=os.path.join(OUT, f"p{i}.profraw"))
    try:
        subprocess.run([BS, d], input=s.encode(), stdout=subprocess.DEVNULL, stderr=subprocess.DEVNULL, env=env, timeout=300)
    except subprocess.TimeoutExpired:
        pass
    shutil.rmtree(d, ignore_errors=True)
with cf.ThreadPoolExecutor(max_workers=16) as ex:
    list(ex.map(run, range(len(scripts))))
print("done")
