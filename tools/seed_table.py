#!/usr/bin/env python3
"""Regenerate the table of DESIGN.md §14.4 from seeded/*/meta.json (rows between the table header and the next blank line)."""
import json, glob, os, re, sys
root = os.path.dirname(os.path.dirname(os.path.abspath(__file__)))
rows = []
for m in sorted(glob.glob(os.path.join(root, "seeded", "*", "meta.json"))):
    d = json.load(open(m))
    esc = lambda s: str(s).replace("|", "\\|").replace("\n", " ")
    caught = "; ".join(d.get("caught_by", [])) or "—"
    missed = "; ".join(d.get("not_caught_by", [])) or "—"
    if d.get("obsolete"):
        caught += f" (obsolete: {d['obsolete']})"
    rows.append(f"| {d['id']} | {esc(d['change'])} | {esc(caught)} | {esc(missed)} |")
p = os.path.join(root, "DESIGN.md")
lines = open(p).read().split("\n")
i = next(k for k, l in enumerate(lines) if l.startswith("| id | change | caught by"))
j = i + 2
while j < len(lines) and lines[j].startswith("|"):
    j += 1
lines[i + 2:j] = rows
open(p, "w").write("\n".join(lines))
print(len(rows), "rows")
