"""A small parser for the subset of Rust that the decision / arithmetic core of byteseries is
written in (tools/rs2lean.py translates the result to Lean).  It parses whole source files
far enough to find items (fn, impl, struct, enum, const) and parses the BODIES of the
functions it is asked for into an AST of tuples.  Anything outside the subset raises
Unsupported with the place - the caller reports that the function is no longer translatable.

AST (tuples, first element is the tag):
  expressions
    ('int', n)  ('str', s)  ('bool', b)  ('path', [seg, ...])
    ('bin', op, a, b)  ('un', op, a)  ('cast', a, type_str)
    ('field', a, name)                 name may be a digit string (tuple field)
    ('mcall', recv, name, [args])  ('call', fn_expr, [args])  ('index', a, i)
    ('try', a)  ('tuple', [es])  ('struct', path, [(field, expr)], base_or_None)
    ('macro', name, raw_token_list)  ('closure', [param_pats], body_expr)
    ('if', cond, then_block, else_block_or_None)   else may itself be an ('if', ...) in a block
    ('iflet', pat, expr, then_block, else_block_or_None)
    ('match', scrutinee, [(pats, guard_or_None, expr)])     pats: list of alternatives
    ('block', [stmts], tail_expr_or_None)
    ('range', lo_or_None, hi_or_None, inclusive)
    ('ref', a)  ('deref', a)
    ('return', e_or_None)  ('break',)  ('continue',)
  statements
    ('let', pat, init_or_None, else_block_or_None, mutable)
    ('expr', e)          expression statement (with ';' or a block-like expression)
    ('assign', op, lhs, rhs)     op in '=', '+=', '-=', ...
    ('for', pat, iter_expr, block)
    ('use', raw)
  patterns
    ('pwild',) ('pbind', name, mutable) ('pint', n) ('prange', lo, hi_or_None, inclusive)
    ('ptuple', [ps]) ('ptstruct', path, [ps]) ('pstruct', path, [(field, pat)], has_rest)
    ('ppath', path) ('por', [ps]) ('pref', p)
"""
import re


class Unsupported(Exception):
    pass


TOKEN_RE = re.compile(r"""
    (?P<ws>\s+)
  | (?P<lcomment>//[^\n]*)
  | (?P<bcomment>/\*.*?\*/)
  | (?P<str>b?"(?:\\.|[^"\\])*")
  | (?P<char>b?'(?:\\.|[^'\\])')
  | (?P<lifetime>'[A-Za-z_][A-Za-z0-9_]*)
  | (?P<num>0b[01_]+|0x[0-9a-fA-F_]+|\d[\d_]*(?:\.\d+)?(?:[ui](?:8|16|32|64|128|size)|f32|f64)?)
  | (?P<id>[A-Za-z_][A-Za-z0-9_]*)
  | (?P<op>\.\.=|\.\.\.|<<=|>>=|::|->|=>|==|!=|<=|>=|&&|\|\||\+=|-=|\*=|/=|%=|\^=|&=|\|=|<<|>>|\.\.|[-+*/%^!&|=<>@.,;:#$?~(){}\[\]])
""", re.X | re.S)


def tokenize(src):
    toks = []
    pos = 0
    line = 1
    while pos < len(src):
        m = TOKEN_RE.match(src, pos)
        if not m:
            raise Unsupported(f"cannot tokenize at line {line}: {src[pos:pos+20]!r}")
        kind = m.lastgroup
        text = m.group()
        if kind not in ("ws", "lcomment", "bcomment"):
            toks.append((kind, text, line))
        line += text.count("\n")
        pos = m.end()
    toks.append(("eof", "", line))
    return toks


def parse_int(text):
    t = re.sub(r"(?:[ui](?:8|16|32|64|128|size))$", "", text).replace("_", "")
    return int(t, 0)


BINPREC = [
    ("||",), ("&&",), ("==", "!=", "<", ">", "<=", ">="), ("|",), ("^",), ("&",),
    ("<<", ">>"), ("+", "-"), ("*", "/", "%"),
]
PREC = {}
for _i, _ops in enumerate(BINPREC):
    for _o in _ops:
        PREC[_o] = _i + 1

ASSIGN_OPS = {"=", "+=", "-=", "*=", "/=", "%=", "^=", "&=", "|=", "<<=", ">>="}


class Parser:
    def __init__(self, toks):
        self.t = toks
        self.i = 0

    # ---- token helpers
    def peek(self, k=0):
        return self.t[min(self.i + k, len(self.t) - 1)]

    def at(self, text, k=0):
        return self.peek(k)[1] == text and self.peek(k)[0] in ("op", "id")

    def at_id(self, k=0):
        return self.peek(k)[0] == "id"

    def next(self):
        tok = self.t[self.i]
        self.i += 1
        return tok

    def expect(self, text):
        tok = self.next()
        if tok[1] != text:
            raise Unsupported(f"line {tok[2]}: expected {text!r}, found {tok[1]!r}")
        return tok

    def accept(self, text):
        if self.at(text):
            self.i += 1
            return True
        return False

    def ident(self):
        tok = self.next()
        if tok[0] != "id":
            raise Unsupported(f"line {tok[2]}: expected identifier, found {tok[1]!r}")
        return tok[1]

    def fail(self, what):
        tok = self.peek()
        raise Unsupported(f"line {tok[2]}: {what} (at {tok[1]!r})")

    # ---- skipping
    def skip_attrs(self):
        while self.at("#"):
            self.next()
            self.accept("!")
            self.skip_group("[", "]")

    def skip_group(self, open_, close):
        self.expect(open_)
        depth = 1
        while depth:
            tok = self.next()
            if tok[0] == "eof":
                raise Unsupported("unbalanced group")
            if tok[0] == "op":
                if tok[1] == open_:
                    depth += 1
                elif tok[1] == close:
                    depth -= 1

    def group_tokens(self, open_, close):
        self.expect(open_)
        depth = 1
        out = []
        while True:
            tok = self.next()
            if tok[0] == "eof":
                raise Unsupported("unbalanced group")
            if tok[0] == "op":
                if tok[1] == open_:
                    depth += 1
                elif tok[1] == close:
                    depth -= 1
                    if depth == 0:
                        return out
            out.append(tok)

    def skip_generics(self):
        """at '<': skip a balanced <...> (types only: '>>' closes two)"""
        depth = 0
        while True:
            tok = self.next()
            if tok[0] == "eof":
                raise Unsupported("unbalanced generics")
            if tok[1] == "<":
                depth += 1
            elif tok[1] == "<<":
                depth += 2
            elif tok[1] == ">":
                depth -= 1
            elif tok[1] == ">>":
                depth -= 2
            elif tok[1] == "->":
                pass
            if depth <= 0:
                return

    def type_str(self, stops):
        """consume a type up to (not including) one of the stop tokens at depth 0"""
        out = []
        depth = 0
        while True:
            tok = self.peek()
            if tok[0] == "eof":
                break
            if depth == 0 and tok[1] in stops and tok[0] in ("op", "id"):
                break
            if tok[1] in ("<", "(", "["):
                depth += 1
            elif tok[1] == "<<":
                depth += 2
            elif tok[1] in (">", ")", "]"):
                if depth == 0:
                    break
                depth -= 1
            elif tok[1] == ">>":
                if depth < 2:
                    break
                depth -= 2
            elif depth == 0 and tok[0] == "op" and tok[1] in ("}", ";", "="):
                break
            out.append(tok[1])
            self.next()
        return " ".join(out)

    # ---- items
    def parse_file(self):
        """returns a list of items:
        ('fn', name, impl_type_or_None, params, ret_type_str, body_token_range)
        ('struct', name, kind, fields)   kind 'named' -> [(field, type)], 'tuple' -> [type]
        ('enum', name, [(variant, kind, fields)])   kind in 'unit','tuple','named'
        ('const', name, impl_type_or_None, type_str, expr)
        """
        items = []
        self.items_until(items, None, "eof")
        return items

    def items_until(self, items, impl_type, stop):
        while True:
            self.skip_attrs()
            tok = self.peek()
            if tok[0] == "eof" or (stop != "eof" and tok[1] == stop):
                return
            self.item(items, impl_type)

    def skip_vis(self):
        if self.at("pub"):
            self.next()
            if self.at("("):
                self.skip_group("(", ")")

    def item(self, items, impl_type):
        self.skip_vis()
        tok = self.peek()
        if tok[1] in ("use", "type", "extern") and tok[0] == "id":
            while not self.at(";"):
                if self.at("{"):
                    self.skip_group("{", "}")
                elif self.at("["):
                    self.skip_group("[", "]")
                elif self.at("("):
                    self.skip_group("(", ")")
                else:
                    self.next()
            self.next()
            return
        if tok[1] == "mod" and tok[0] == "id":
            while not self.at(";") and not self.at("{"):
                self.next()
            if self.at("{"):
                self.skip_group("{", "}")
            else:
                self.next()
            return
        if tok[1] == "const" and not self.at("fn", 1):
            self.next()
            name = self.ident()
            self.expect(":")
            ty = self.type_str({"="})
            self.expect("=")
            e = self.expr()
            self.expect(";")
            items.append(("const", name, impl_type, ty, e))
            return
        if tok[1] == "static":
            while not self.at(";"):
                self.next()
            self.next()
            return
        if tok[1] in ("const", "async", "unsafe") and self.at("fn", 1):
            self.next()
            tok = self.peek()
        if tok[1] == "fn":
            self.fn_item(items, impl_type)
            return
        if tok[1] == "struct":
            self.struct_item(items)
            return
        if tok[1] == "enum":
            self.enum_item(items)
            return
        if tok[1] == "impl":
            self.next()
            if self.at("<"):
                self.skip_generics()
            ty = self.type_str({"{", "for", "where"})
            if self.accept("for"):
                ty2 = self.type_str({"{", "where"})
                trait, ty = ty, ty2
            if self.at("where"):
                self.type_str({"{"})
            # name of the type the impl is for: first identifier
            m = re.match(r"[A-Za-z_][A-Za-z0-9_]*", ty)
            tname = m.group() if m else ty
            self.expect("{")
            self.items_until(items, tname, "}")
            self.expect("}")
            return
        if tok[1] == "trait":
            while not self.at("{"):
                self.next()
            self.skip_group("{", "}")
            return
        if tok[1] == "macro_rules":
            self.next(); self.expect("!"); self.next()
            self.skip_group("{", "}")
            return
        self.fail("unknown item")

    def fn_item(self, items, impl_type):
        self.expect("fn")
        name = self.ident()
        if self.at("<"):
            self.skip_generics()
        self.expect("(")
        params = []
        while not self.at(")"):
            self.skip_attrs()
            # self forms
            if self.at("self") or (self.at("&") and (self.at("self", 1) or (self.at("mut", 1) and self.at("self", 2)))) \
               or (self.at("mut") and self.at("self", 1)):
                while not self.at(",") and not self.at(")"):
                    self.next()
                params.append(("self", impl_type))
            else:
                pat = self.pattern()
                self.expect(":")
                ty = self.type_str({","})
                params.append((pat, ty))
            if not self.accept(","):
                break
        self.expect(")")
        ret = ""
        if self.accept("->"):
            ret = self.type_str({"{", "where", ";"})
        if self.at("where"):
            self.type_str({"{", ";"})
        if self.accept(";"):
            return
        start = self.i
        self.skip_group("{", "}")
        items.append(("fn", name, impl_type, params, ret, (start, self.i)))

    def struct_item(self, items):
        self.expect("struct")
        name = self.ident()
        if self.at("<"):
            self.skip_generics()
        if self.at("where"):
            self.type_str({"{", ";", "("})
        if self.accept(";"):
            items.append(("struct", name, "unit", []))
            return
        if self.at("("):
            self.expect("(")
            fields = []
            while not self.at(")"):
                self.skip_attrs(); self.skip_vis()
                fields.append(self.type_str({","}))
                if not self.accept(","):
                    break
            self.expect(")")
            if self.at("where"):
                self.type_str({";"})
            self.expect(";")
            items.append(("struct", name, "tuple", fields))
            return
        self.expect("{")
        fields = []
        while not self.at("}"):
            self.skip_attrs(); self.skip_vis()
            f = self.ident()
            self.expect(":")
            fields.append((f, self.type_str({","})))
            if not self.accept(","):
                break
        self.expect("}")
        items.append(("struct", name, "named", fields))

    def enum_item(self, items):
        self.expect("enum")
        name = self.ident()
        if self.at("<"):
            self.skip_generics()
        self.expect("{")
        variants = []
        while not self.at("}"):
            self.skip_attrs()
            v = self.ident()
            if self.at("("):
                self.expect("(")
                fs = []
                while not self.at(")"):
                    self.skip_attrs()
                    fs.append(self.type_str({","}))
                    if not self.accept(","):
                        break
                self.expect(")")
                variants.append((v, "tuple", fs))
            elif self.at("{"):
                self.expect("{")
                fs = []
                while not self.at("}"):
                    self.skip_attrs(); self.skip_vis()
                    f = self.ident()
                    self.expect(":")
                    fs.append((f, self.type_str({","})))
                    if not self.accept(","):
                        break
                self.expect("}")
                variants.append((v, "named", fs))
            else:
                if self.accept("="):
                    self.expr()
                variants.append((v, "unit", []))
            if not self.accept(","):
                break
        self.expect("}")
        items.append(("enum", name, variants))

    # ---- patterns
    def pattern(self):
        self.accept("|")
        alts = [self.pattern1()]
        while self.at("|"):
            self.next()
            alts.append(self.pattern1())
        return alts[0] if len(alts) == 1 else ("por", alts)

    def pattern1(self):
        tok = self.peek()
        if tok[1] == "&":
            self.next(); self.accept("mut")
            return ("pref", self.pattern1())
        if tok[1] == "_" and tok[0] == "id":
            self.next()
            return ("pwild",)
        if tok[0] == "num" or (tok[1] == "-" and self.peek(1)[0] == "num"):
            self.next()
            lo = parse_int(tok[1])
            if self.at("..=") or self.at(".."):
                incl = self.next()[1] == "..="
                hi = None
                if self.peek()[0] == "num":
                    hi = parse_int(self.next()[1])
                return ("prange", lo, hi, incl)
            return ("pint", lo)
        if tok[1] == "(":
            self.next()
            ps = []
            while not self.at(")"):
                ps.append(self.pattern())
                if not self.accept(","):
                    break
            self.expect(")")
            return ("ptuple", ps) if len(ps) != 1 else ps[0]
        if tok[0] == "id":
            mutable = False
            if tok[1] in ("mut", "ref"):
                self.next()
                mutable = True
                if self.at("mut"):
                    self.next()
            path = [self.ident()]
            while self.at("::"):
                self.next()
                path.append(self.ident())
            if self.at("("):
                self.next()
                ps = []
                while not self.at(")"):
                    ps.append(self.pattern())
                    if not self.accept(","):
                        break
                self.expect(")")
                return ("ptstruct", path, ps)
            if self.at("{"):
                self.next()
                fs = []
                rest = False
                while not self.at("}"):
                    if self.accept(".."):
                        rest = True
                        break
                    f = self.ident()
                    if self.accept(":"):
                        fs.append((f, self.pattern()))
                    else:
                        fs.append((f, ("pbind", f, False)))
                    if not self.accept(","):
                        break
                self.expect("}")
                return ("pstruct", path, fs, rest)
            if len(path) == 1 and (path[0][0].islower() or path[0][0] == "_"):
                return ("pbind", path[0], mutable)
            return ("ppath", path)
        self.fail("unsupported pattern")

    # ---- statements / blocks
    def block(self):
        self.expect("{")
        stmts = []
        tail = None
        while not self.at("}"):
            self.skip_attrs()
            if self.accept(";"):
                continue
            if self.at("use"):
                raw = []
                while not self.at(";"):
                    raw.append(self.next()[1])
                self.next()
                stmts.append(("use", raw))
                continue
            if self.at("let"):
                self.next()
                pat = self.pattern()
                if self.accept(":"):
                    self.type_str({"=", ";"})
                init = None
                els = None
                if self.accept("="):
                    init = self.expr()
                    if self.at("else"):
                        self.next()
                        els = self.block()
                self.expect(";")
                mutable = pat[0] == "pbind" and pat[2]
                stmts.append(("let", pat, init, els, mutable))
                continue
            if self.at("for"):
                self.next()
                pat = self.pattern()
                self.expect("in")
                it = self.expr(no_struct=True)
                body = self.block()
                stmts.append(("for", pat, it, body))
                continue
            if self.at("while") or self.at("loop"):
                self.fail("loops other than `for` are outside the subset")
            if self.peek()[0] == "lifetime" and self.peek(1)[1] == ":" and self.peek(2)[1] == "{":
                lab = self.next()[1]
                self.next()
                body = self.block()
                stmts.append(("labeled", lab, body))
                continue
            e = self.expr(stmt=True)
            if self.peek()[1] in ASSIGN_OPS and self.peek()[0] == "op":
                op = self.next()[1]
                rhs = self.expr()
                self.expect(";")
                stmts.append(("assign", op, e, rhs))
                continue
            if self.accept(";"):
                stmts.append(("expr", e))
                continue
            if self.at("}"):
                tail = e
                break
            if e[0] in ("if", "iflet", "match", "block"):
                stmts.append(("expr", e))
                continue
            self.fail("expected ';' or '}' after expression")
        self.expect("}")
        return ("block", stmts, tail)

    # ---- expressions
    def expr(self, no_struct=False, stmt=False):
        return self.range_expr(no_struct, stmt)

    def range_expr(self, no_struct, stmt=False):
        if self.at("..") or self.at("..="):
            incl = self.next()[1] == "..="
            hi = None
            if not (self.at(")") or self.at(",") or self.at(";") or self.at("]") or self.at("}")):
                hi = self.bin_expr(1, no_struct)
            return ("range", None, hi, incl)
        lo = self.bin_expr(1, no_struct, stmt)
        if self.at("..") or self.at("..="):
            incl = self.next()[1] == "..="
            hi = None
            if not (self.at(")") or self.at(",") or self.at(";") or self.at("]") or self.at("}") or self.at("{")):
                hi = self.bin_expr(1, no_struct)
            return ("range", lo, hi, incl)
        return lo

    def bin_expr(self, minprec, no_struct, stmt=False):
        lhs = self.unary(no_struct, stmt)
        if stmt and lhs[0] in ("if", "iflet", "match", "block") :
            # a block-like expression at statement level ends the statement
            if not self.at("."):
                return lhs
        while True:
            tok = self.peek()
            if tok[0] == "id" and tok[1] == "as":
                self.next()
                ty = self.type_str({",", ";", ")", "]", "}", "{", "+", "-", "*", "/", "%", "==", "!=", "<=", ">=", "&&", "||", "=>", "=", "..", "..=", "?", ".", "as"})
                lhs = ("cast", lhs, ty)
                continue
            if tok[0] != "op" or tok[1] not in PREC:
                return lhs
            prec = PREC[tok[1]]
            if prec < minprec:
                return lhs
            self.next()
            rhs = self.bin_expr(prec + 1, no_struct)
            lhs = ("bin", tok[1], lhs, rhs)

    def unary(self, no_struct, stmt=False):
        tok = self.peek()
        if tok[0] == "op" and tok[1] in ("!", "-"):
            self.next()
            return ("un", tok[1], self.unary(no_struct))
        if tok[0] == "op" and tok[1] == "*":
            self.next()
            return ("deref", self.unary(no_struct))
        if tok[0] == "op" and tok[1] in ("&", "&&"):
            self.next()
            self.accept("mut")
            e = self.unary(no_struct)
            return ("ref", e) if tok[1] == "&" else ("ref", ("ref", e))
        prim = self.primary(no_struct)
        if stmt and prim[0] in ("if", "iflet", "match", "block") and not self.at(".") and not self.at("?"):
            return prim
        return self.postfix(prim, no_struct)

    def args(self):
        self.expect("(")
        out = []
        while not self.at(")"):
            out.append(self.expr())
            if not self.accept(","):
                break
        self.expect(")")
        return out

    def postfix(self, e, no_struct):
        while True:
            if self.at("?"):
                self.next()
                e = ("try", e)
            elif self.at("."):
                self.next()
                tok = self.next()
                if tok[0] == "num":
                    # tuple field; `a.0.1` is tokenised as a float `0.1`
                    for part in tok[1].split("."):
                        e = ("field", e, part)
                    continue
                if tok[0] != "id":
                    raise Unsupported(f"line {tok[2]}: field or method expected")
                if tok[1] == "await":
                    raise Unsupported("await")
                if self.at("::"):
                    self.next()
                    self.skip_generics()
                if self.at("("):
                    e = ("mcall", e, tok[1], self.args())
                else:
                    e = ("field", e, tok[1])
            elif self.at("("):
                e = ("call", e, self.args())
            elif self.at("["):
                self.next()
                i = self.expr()
                self.expect("]")
                e = ("index", e, i)
            else:
                return e

    def primary(self, no_struct):
        tok = self.peek()
        if tok[0] == "num":
            self.next()
            if "." in tok[1] and not tok[1].startswith("0x"):
                raise Unsupported(f"line {tok[2]}: float literal")
            return ("int", parse_int(tok[1]))
        if tok[0] == "str":
            self.next()
            return ("str", tok[1])
        if tok[0] == "char":
            self.next()
            return ("str", tok[1])
        if tok[1] == "(" and tok[0] == "op":
            self.next()
            es = []
            trailing = False
            while not self.at(")"):
                es.append(self.expr())
                trailing = False
                if not self.accept(","):
                    break
                trailing = True
            self.expect(")")
            if len(es) == 1 and not trailing:
                return es[0]
            return ("tuple", es)
        if tok[1] == "[" and tok[0] == "op":
            self.next()
            es = []
            while not self.at("]"):
                es.append(self.expr())
                if self.accept(";"):
                    n = self.expr()
                    self.expect("]")
                    return ("arrayrep", es[0], n)
                if not self.accept(","):
                    break
            self.expect("]")
            return ("array", es)
        if tok[1] == "{" and tok[0] == "op":
            return self.block()
        if tok[1] == "|" or tok[1] == "||":
            # closure
            params = []
            if self.next()[1] == "|":
                while not self.at("|"):
                    params.append(self.pattern1())
                    if self.accept(":"):
                        self.type_str({",", "|"})
                    if not self.accept(","):
                        break
                self.expect("|")
            body = self.expr()
            return ("closure", params, body)
        if tok[0] == "id":
            if tok[1] == "move" and (self.at("|", 1) or self.at("||", 1)):
                self.next()
                return self.primary(no_struct)
            if tok[1] == "if":
                return self.if_expr()
            if tok[1] == "match":
                self.next()
                scrut = self.expr(no_struct=True)
                self.expect("{")
                arms = []
                while not self.at("}"):
                    self.skip_attrs()
                    pat = self.pattern()
                    pats = pat[1] if pat[0] == "por" else [pat]
                    guard = None
                    if self.accept("if"):
                        guard = self.expr()
                    self.expect("=>")
                    body = self.expr(stmt=True)
                    arms.append((pats, guard, body))
                    if not self.accept(","):
                        if not self.at("}") and body[0] not in ("block", "if", "match", "iflet"):
                            self.fail("expected ',' after match arm")
                self.expect("}")
                return ("match", scrut, arms)
            if tok[1] == "return":
                self.next()
                if self.at(";") or self.at("}") or self.at(",") or self.at(")"):
                    return ("return", None)
                return ("return", self.expr())
            if tok[1] == "break":
                self.next()
                if self.peek()[0] == "lifetime":
                    lab = self.next()[1]
                    if not (self.at(";") or self.at("}") or self.at(",")):
                        self.fail("break with value")
                    return ("break", lab)
                if not (self.at(";") or self.at("}") or self.at(",")):
                    self.fail("break with value / label")
                return ("break",)
            if tok[1] == "continue":
                self.next()
                return ("continue",)
            if tok[1] in ("while", "loop", "for", "unsafe", "async"):
                self.fail(f"`{tok[1]}` expression outside the subset")
            # path
            path = [self.ident()]
            while self.at("::"):
                self.next()
                if self.at("<"):
                    self.skip_generics()
                    continue
                path.append(self.ident())
            if self.at("!") and not self.at("=", 1):
                self.next()
                o = self.peek()[1]
                c = {"(": ")", "[": "]", "{": "}"}.get(o)
                if c is None:
                    self.fail("macro delimiter")
                raw = self.group_tokens(o, c)
                return ("macro", path[-1], raw)
            if self.at("{") and not no_struct and (path[-1][0].isupper()):
                # struct literal
                self.next()
                fs = []
                base = None
                while not self.at("}"):
                    if self.accept(".."):
                        base = self.expr()
                        break
                    f = self.ident()
                    if self.accept(":"):
                        fs.append((f, self.expr()))
                    else:
                        fs.append((f, ("path", [f])))
                    if not self.accept(","):
                        break
                self.expect("}")
                return ("struct", path, fs, base)
            return ("path", path)
        self.fail("unsupported expression")

    def if_expr(self):
        self.expect("if")
        if self.at("let"):
            self.next()
            pat = self.pattern()
            self.expect("=")
            e = self.expr(no_struct=True)
            then = self.block()
            els = None
            if self.accept("else"):
                els = self.block() if self.at("{") else ("block", [], self.if_expr())
            return ("iflet", pat, e, then, els)
        cond = self.expr(no_struct=True)
        then = self.block()
        els = None
        if self.accept("else"):
            els = self.block() if self.at("{") else ("block", [], self.if_expr())
        return ("if", cond, then, els)


def parse_source(text):
    toks = tokenize(text)
    p = Parser(toks)
    items = p.parse_file()
    return toks, items


def parse_body(toks, rng):
    sub = toks[rng[0]:rng[1]] + [("eof", "", toks[rng[1] - 1][2])]
    p = Parser(sub)
    b = p.block()
    if p.peek()[0] != "eof":
        p.fail("trailing tokens after function body")
    return b
