#!/bin/sh
# re-run every stored seeded change against the checks named in its meta.json (`ran`);
# prints one line per seed: CAUGHT (some check exits 1 with a VIOLATION) or MISSED
cd /verif
for d in seeded/*/; do
  id=$(basename $d)
  if python3 -c "import json,sys; sys.exit(0 if json.load(open('$d/meta.json')).get('obsolete') else 1)"; then echo "$id: OBSOLETE (see meta.json)"; continue; fi
  props=$(python3 -c "import json,sys; r=json.load(open('$d/meta.json'))['ran'].split(); print(' '.join(x for x in r[2:] if x.startswith('C') and len(x)==3))")
  if ! git -C /repo apply --check /verif/$d/patch.diff 2>/dev/null; then echo "$id: PATCH-DOES-NOT-APPLY"; continue; fi
  out=$(tools/seed_run.sh $id $props 2>&1)
  if echo "$out" | grep -q "exit=1 [1-9]"; then echo "$id: CAUGHT ($(echo "$out" | grep -o 'C[0-9][0-9]: exit=1' | tr '\n' ' '))"; else echo "$id: MISSED ($props)"; fi
done
