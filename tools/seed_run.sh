#!/bin/sh
# usage: tools/seed_run.sh <seed-id> <property>...   applies the seeded patch to /repo, runs the checks, undoes it
ID=$1; shift
cd /verif
git -C /repo apply /verif/seeded/$ID/patch.diff || exit 2
for P in "$@"; do
  ./check.py $P --tier quick 2>&1 | grep -E "VIOLATION|KNOWN|quick:|property fails|implementation:|specification" | cut -c1-220 | head -12
done
git -C /repo checkout -- .
rm -rf /verif/replays
