#!/bin/sh
# usage: tools/seed_run.sh <seed-id> <property>...   applies the seeded patch to /repo, runs the checks, undoes it
ID=$1; shift
cd /verif
git -C /repo apply /verif/seeded/$ID/patch.diff || exit 2
for P in "$@"; do
  ./check.py $P --tier quick > /verif/.run/seed_$P.log 2>&1
  echo "$P: exit=$? $(grep -c '^VIOLATION' /verif/.run/seed_$P.log) violation line(s); $(grep 'quick:' /verif/.run/seed_$P.log | cut -c1-150)"
  grep -A3 "property fails" /verif/.run/seed_$P.log | head -4 | cut -c1-200
done
git -C /repo checkout -- .
rm -rf /verif/replays
python3 /verif/tools/rs2lean.py >/dev/null 2>&1
