#!/bin/sh
# usage: tools/seed_verify.sh <worktree> <seed-id> <property>
# confirms a seeded change in its scratch worktree (suite passes with it, demo fails with it
# and passes without it) and stores it under /verif/seeded/<seed-id>/
set -e
WT=$1; ID=$2; PROP=$3
cd "$WT"
git checkout -q -- src
mkdir -p /tmp/seedtmp_$ID && mv tests/seeded_demo.rs /tmp/seedtmp_$ID/seeded_demo.rs
git apply patch.diff
echo "== suite with change (demo moved aside)"
cargo test --offline 2>&1 | grep -E "^test result" | awk '{p+=$4; f+=$6} END {print "passed", p, "failed", f}' | tee /tmp/seedtmp_$ID/suite.txt
mv /tmp/seedtmp_$ID/seeded_demo.rs tests/seeded_demo.rs
echo "== demo with change"
(cargo test --offline --test seeded_demo 2>&1 | grep -E "^test result" || true) | tee /tmp/seedtmp_$ID/demo_with.txt
git checkout -q -- src
echo "== demo without change"
(cargo test --offline --test seeded_demo 2>&1 | grep -E "^test result" || true) | tee /tmp/seedtmp_$ID/demo_without.txt
mkdir -p /verif/seeded/$ID
cp patch.diff /verif/seeded/$ID/patch.diff
cp tests/seeded_demo.rs /verif/seeded/$ID/seeded_demo.rs
cat /tmp/seedtmp_$ID/suite.txt /tmp/seedtmp_$ID/demo_with.txt /tmp/seedtmp_$ID/demo_without.txt > /verif/seeded/$ID/confirmation.txt
echo "$PROP" > /verif/seeded/$ID/property.txt
