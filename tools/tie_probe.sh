#!/bin/sh
# usage: tools/tie_probe.sh <seed-id>...   apply a seeded patch, regenerate Core.lean, rebuild the tie theorems,
# run the function-level search, undo.  Development aid (not a registered check).
cd /verif
for ID in "$@"; do
  git -C /repo apply /verif/seeded/$ID/patch.diff || { echo "$ID: patch does not apply"; continue; }
  python3 tools/rs2lean.py > .run/tie_tr.log 2>&1; TR=$?
  (cd lean && lake build BS.Proofs.GenTie > ../.run/tie_build.log 2>&1); B=$?
  ERRS=$(grep -o "GenTie.lean:[0-9]*" .run/tie_build.log | sort -u | tr '\n' ' ')
  CORE=$(grep -c "Generated/Core.lean:[0-9]*:[0-9]*: error" .run/tie_build.log)
  D=""
  if [ $B -ne 0 ] && [ "$CORE" = "0" ]; then D=$(cd lean && lake env lean --run GenDiff.lean 2>&1 | grep "^DIFF" | cut -c1-260 | head -3); fi
  echo "== $ID: translate rc=$TR; tie build rc=$B core-errors=$CORE; $ERRS"
  grep "not translated" .run/tie_tr.log | head -3
  [ -n "$D" ] && echo "$D"
  git -C /repo checkout -- .
done
python3 tools/rs2lean.py; (cd lean && lake build BS.Proofs.GenTie >/dev/null 2>&1); echo "restored: $?"
