#!/usr/bin/env python3
"""Translate the decision / arithmetic core of byteseries from Rust to Lean 4.

    tools/rs2lean.py            regenerate lean/BS/Generated/Core.lean from $VERIF_REPO/src
    tools/rs2lean.py --print    print instead of writing

The translation is purely syntactic (tools/rsparse.py parses, this file emits): every function
listed in TARGETS becomes a Lean definition `BS.Gen.<name>` in the monad `R = Except Fault`
with the SAME control flow (early returns, matches, the for loop) and with every unsigned
`+ - * /`, every slice index and every `expect` turned into a checked operation of
`BS/Impl/GenPrelude.lean`.  Nothing about the hand-written model enters the output except
the names of the types it shares (`StartArea`, `RoughPos`, ...); that the translated functions
ARE the functions the property theorems talk about is proved in `BS/Proofs/GenTie.lean` and
re-checked by the kernel whenever the output changes.

Exit status: 0 written / unchanged; 3 when a target can no longer be translated (the reason
is printed and recorded in Core.lean's header; the functions that still translate are emitted).
"""
import json, os, re, sys

sys.path.insert(0, os.path.dirname(os.path.abspath(__file__)))
from rsparse import parse_source, parse_body, Unsupported

REPO = os.environ.get("VERIF_REPO", "/repo")
HERE = os.path.dirname(os.path.abspath(__file__))
OUT = os.path.join(HERE, "..", "lean", "BS", "Generated", "Core.lean")

FILES = [
    "src/series.rs",
    "src/series/data/inline_meta.rs",
    "src/series/data/inline_meta/meta.rs",
    "src/series/data/index.rs",
    "src/series/data.rs",
    "src/seek.rs",
    "src/seek/estimate.rs",
    "src/series/downsample.rs",
    "src/series/downsample/repair.rs",
]

NEWTYPES = {"MetaPos", "LinePos", "PayloadSize"}
INT_TYPES = {"u64", "usize", "u16", "u32", "u8", "u128", "Timestamp", "int"}

# Rust struct -> (Lean type, {rust field: lean field}); fields not listed may not be touched
STRUCTS = {
    "RoughPos": ("Impl.RoughPos", {"start_ts": "startTs", "start_search_area": "startArea",
                                    "start_section_full_ts": "startFull", "end_ts": "endTs",
                                    "end_search_area": "endArea", "end_section_full_ts": "endFull"}),
    "Pos": ("Impl.Pos", {"start": "start", "end": "stop", "first_full_ts": "firstFull"}),
    "Estimate": ("Impl.Estimate", {"max": "max", "min": "min"}),
    "Entry": ("Impl.IEntry", {"timestamp": "ts", "meta_start": "off"}),
    "Index": ("Index", {"entries": "entries", "last_timestamp": "last_timestamp"}),
    "Data": ("Impl.DataView", {"payload_size": "p", "data_len": "dataLen", "last_time": "lastTime",
                               "index": "@index"}),
    # the cache as `repair::add_missing_data` sees it: its own Data, the bucket size, `lines_to_skip`
    "DownSampledData": ("CacheView", {"data": "data", "config": "@same", "lines_to_skip": "lines_to_skip",
                                      "samples_in_bin": "samples_in_bin", "ts_sum": "ts_sum",
                                      "resample_state": "resample_state"}),
    "Config": ("CacheView", {"bucket_size": "bucket_size"}),
    # the accumulator of a resampling read IS the model's `Sampler`
    "Sampler": ("Impl.Sampler", {"resample_state": "vSum", "timestamp_sum": "tsSum", "sampled": "sampled",
                                 "bucket_size": "bucket"}),
    # what `push_line` touches of the series: its Data (payload size) and the cached range
    "ByteSeries": ("SeriesView", {"data": "data", "range": "range"}),
    "FileWithInlineMeta": ("FileView", {"file_handle": "file_handle", "payload_size": "payload_size"}),
}
# every field of these structs must be in the map (a new field changes what the type means)
STRUCTS_EXACT = {"RoughPos", "Pos", "Estimate", "Entry"}

ENUMS = {
    "Result": ("MetaResult", {"OutOfLines": "outOfLines", "Meta": "gotMeta"}),
    "StartArea": ("Impl.StartArea", {"Found": "found", "Clipped": "clipped", "TillEnd": "tillEnd",
                                     "Window": "window", "Gap": "gap"}),
    "EndArea": ("Impl.EndArea", {"Found": "found", "TillEnd": "tillEnd", "Window": "window", "Gap": "gap"}),
}
# arity of the Lean constructors (checked against the Rust definition)
ENUM_ARITY = {
    "Result": {"OutOfLines": 1, "Meta": 1},
    "StartArea": {"Found": 1, "Clipped": 0, "TillEnd": 1, "Window": 2, "Gap": 1},
    "EndArea": {"Found": 1, "TillEnd": 1, "Window": 2, "Gap": 1},
}
STD_ENUMS = {
    "Bound": ("Impl.Bound", {"Included": ("incl", 1), "Excluded": ("excl", 1), "Unbounded": ("unb", 0)}),
    # `TimeRange { None, Some(RangeInclusive) }` is the model's `Option (first, last)`
    "TimeRange": ("Option", {"None": ("none", 0), "Some": ("some", 1)}),
}
MUTSELF_TARGETS = {("TimeRange", "update"), ("DownSampledData", "process"), ("Sampler", "process"), ("ByteSeries", "push_line"),
                   ("Index", "update"), ("Data", "push_data")}
# `for x in &mut self.<field>` over the boxed caches: the body is translated ONCE (one cache level), calls on the
# loop variable become actions
FOR_EACH_ONCE = {("ByteSeries", "downsampled"): "dynDownSampled"}
# `self.<field>.push(x)` on the caller's output vectors: actions
EFFECT_FIELD_PUSH = {("Sampler", "timestamps"): "(CatchUp.outTs {0})", ("Sampler", "data"): "(CatchUp.outItem {0})"}
# fields that only feed panic messages: statements on them are dropped
IGNORED_FIELDS = {("DownSampledData", "debug_tss")}
# calls through the generic resampler of the cache: the harness's `Lin` resampler over the library's u64 state
# (field, method) -> (kind, template); {s} = self, {0}.. = arguments
RESAMPLER_CALLS = {
    ("resampler", "decode_payload"): ("pure", "(Impl.linDecode {0})", "u64"),
    ("resampler", "encode_item"): ("pure", "(Impl.linEncode {s}.data.p {0})", "[u8]"),
    ("resample_state", "add"): ("state_add", None, None),
    ("resample_state", "finish"): ("state_finish", None, "u64"),
}
ERROR_ENUMS = {"Error", "PushError"}          # variants become `Fault.err "<Variant>"`

# trivial getters: (type, method) -> field; the Rust body must be literally `self.<field>`
GETTERS = {
    ("MetaPos", "raw_offset"): "0", ("LinePos", "raw_offset"): "0", ("PayloadSize", "raw"): "0",
    ("Data", "payload_size"): "payload_size", ("Index", "last_timestamp"): "last_timestamp",
    ("Data", "last_time"): "last_time",
}

# functions that do file I/O: not translated, they stand for the model's function of the same
# name (tied to the code by the differential check only)
EXTERNALS = {
    "find_read_start": ("(pure (Impl.findReadStart {0}.p d {1} {2} {3}))", "mon", "LinePos"),
    "find_read_end": ("(Impl.findReadEnd {0}.p d {1} {2} {3})", "mon", "u64"),
}

# calls / assignments with an effect outside the translated function become ACTIONS appended to a trace
# the function returns (type `List CatchUp` of GenPrelude.lean); `final`: the rest of the body only maps the
# external's error, translation stops there
EFFECT_METHODS = {
    ("Data", "clear"): ("CatchUp.clear", False),
    ("Data", "push_data"): ("(CatchUp.push {0} {1})", False),
    (None, "read_with_processor"): ("(CatchUp.replay {0})", True),
    ("dynDownSampled", "process"): ("(CatchUp.cache {0} {1})", False),
}
EFFECT_FIELDS = {("DownSampledData", "lines_to_skip"): "(CatchUp.skip {0})"}
TRACE_TARGETS = {(None, "add_missing_data"), ("DownSampledData", "process"), ("Sampler", "process"), ("ByteSeries", "push_line"),
                 ("Index", "update"), ("Data", "push_data")}
# the write path: the trace is the list of `write_all` calls on the two files, in order (type `IoW` of GenPrelude.lean)
TRACE_TYPE = {("Index", "update"): "IoW", ("Data", "push_data"): "IoW"}
# `self.<field>.write_all(x)` / `self.<field>.<file>.write_all(x)` -> action
WRITE_FIELDS = {("Index", ("file",)): "(IoW.indexWrite {0})", ("Data", ("file_handle",)): "(IoW.dataWrite {0})"}
# a translated function with a write sink called with a field of self as the sink
SINK_FIELDS = {("Data", "file_handle"): "(IoW.dataWrite {0})"}
SKIP_PARAMS = {"corruption_callback"}

# the open-time tail repair works on a generic file (`F: Read + Seek + SetLen`): the file is its bytes, `len()` their
# number, `set_len(n)` keeps the first n; the parameter is passed in and the new content returned
def is_file(t):
    return t in ("F", "implSetLen")


# the two repair stages written with iterator adaptors (`chunks_exact().tuple_windows().position(..)`, `by_ref().last()`)
# are outside the subset: a call stands for the model's function of the same name (tied by the correspondence only)
FILE_EXTERNALS = {
    "removed_partial_meta_at_end": "(Rs.optStep (Impl.removePartialMeta {1} {0}) {0})",
    "removed_start_of_meta_at_end": "(Rs.optStep (Impl.removeStartOfMeta {1} {0}) {0})",
}

# (file, impl type or None, fn, extra parameters appended to the Lean signature)
TARGETS = [
    ("src/series/data.rs", None, "const:MAX_SMALL_TS", None),
    ("src/series/data/index.rs", "MetaPos", "const:ZERO", None),
    ("src/series/data/inline_meta/meta.rs", None, "lines_per_metainfo", None),
    ("src/series/data/inline_meta/meta.rs", None, "const:PREAMBLE", None),
    ("src/series/data/index.rs", "PayloadSize", "line_size", None),
    ("src/series/data/index.rs", "PayloadSize", "metainfo_size", None),
    ("src/series/data/index.rs", "MetaPos", "line_start", None),
    ("src/series/data/index.rs", "LinePos", "next_line_start", None),
    ("src/series/data/inline_meta/meta.rs", None, "write", None),
    ("src/series/data/inline_meta/meta.rs", None, "read", None),
    ("src/series/data/index.rs", None, "in_gap", None),
    ("src/series/data/index.rs", "Index", "first_meta_timestamp", None),
    ("src/series/data/index.rs", "Index", "len", None),
    ("src/series/data/index.rs", "Index", "start_search_bounds", None),
    ("src/series/data/index.rs", "Index", "end_search_bounds", None),
    ("src/series/data/index.rs", "Index", "line_pos", None),
    ("src/series/data.rs", "Data", "first_meta_timestamp", None),
    ("src/series/data.rs", "Data", "range", None),
    ("src/series/data.rs", "Data", "last_line_start", None),
    ("src/series/data.rs", "Data", "len", None),
    ("src/series/data.rs", "Data", "line_pos", None),
    ("src/seek.rs", None, "checked_start_time", None),
    ("src/seek.rs", None, "checked_end_time", None),
    ("src/seek.rs", "RoughPos", "new", None),
    ("src/seek.rs", "RoughPos", "end_small_ts", None),
    ("src/seek.rs", "RoughPos", "start_small_ts", None),
    ("src/seek.rs", "RoughPos", "refine", "(d : Bytes)"),
    ("src/seek.rs", "Pos", "lines", None),
    ("src/seek/estimate.rs", "RoughPos", "estimate_lines", None),
    ("src/series/downsample/repair.rs", None, "add_missing_data", None),
    ("src/series.rs", "TimeRange", "update", None),
    ("src/series/downsample.rs", "DownSampledData", "process", None),
    ("src/series/data/inline_meta.rs", "Sampler", "process", None),
    ("src/series.rs", "ByteSeries", "push_line", None),
    ("src/series/data/index.rs", "Index", "update", None),
    ("src/series/data.rs", "Data", "push_data", None),
    ("src/series/data/inline_meta.rs", None, "repair_incomplete_last_write", None),
    ("src/series/data/inline_meta.rs", None, "repaired_is_only_meta", None),
    ("src/series/data/inline_meta.rs", "FileWithInlineMeta", "new", None),
    ("src/series.rs", "ByteSeries", "n_lines_between", "(d : Bytes)"),
]

LEAN_KEYWORDS = {"end", "at", "from", "open", "section", "then", "do", "fun", "in", "have", "show", "where",
                 "with", "let", "if", "else", "match", "return", "for", "by", "namespace", "variable", "theorem",
                 "def", "instance", "structure", "inductive", "class", "import", "export", "universe", "macro",
                 "syntax", "deriving", "mutual", "private", "protected", "partial", "unsafe", "noncomputable",
                 "meta", "stop", "start"}
LEAN_KEYWORDS -= {"stop", "start"}


def mangle(name):
    if name in LEAN_KEYWORDS:
        return name + "_"
    return name


def norm_type(t, impl=None):
    if t is None:
        return None
    t = t.replace(" ", "")
    t = re.sub(r"^((?:&(?:'[a-z_]+)?(?:mut)?)*)DownSampledData<\w+>$", r"\1DownSampledData", t)
    t = re.sub(r"^Sampler<.*>$", "Sampler", t)
    t = re.sub(r"^(&('[a-z_]+)?(mut)?)+", "", t)
    t = re.sub(r"^mut", "", t) if t.startswith("mut") and not t.startswith("mutable") and len(t) > 3 and t[3].isupper() else t
    if t == "Self" and impl:
        return impl
    t = re.sub(r"'[a-z_]+", "", t)
    for pre in ("crate::", "super::", "index::", "seek::", "data::", "std::ops::", "core::ops::", "std::io::"):
        while t.startswith(pre):
            t = t[len(pre):]
    return t


def is_bytes(t):
    return t is not None and (t.startswith("[u8") or t in ("Vec<u8>", "bytes", "implAsRef<[u8]>"))


def is_iter(t):
    return t is not None and t.startswith("implIterator<")


def is_sink(t):
    return t is not None and t in ("implWrite", "implstd::io::Write")


def generic_arg(t, head):
    """Option<T> -> T (first generic argument at depth 0)"""
    if t is None or not t.startswith(head + "<") or not t.endswith(">"):
        return None
    inner = t[len(head) + 1:-1]
    depth = 0
    for i, c in enumerate(inner):
        if c in "<([":
            depth += 1
        elif c in ">)]":
            depth -= 1
        elif c == "," and depth == 0:
            return inner[:i]
    return inner


def split_tuple_type(t):
    inner = t[1:-1]
    parts, depth, cur = [], 0, ""
    for c in inner:
        if c in "<([":
            depth += 1
        elif c in ">)]":
            depth -= 1
        if c == "," and depth == 0:
            parts.append(cur); cur = ""
        else:
            cur += c
    if cur:
        parts.append(cur)
    return parts


class Val:
    def __init__(self, stmts, term, kind, ty=None, prop=False):
        self.stmts = stmts      # IR items to run first
        self.term = term        # str (kind pure/mon) or IR code (kind code)
        self.kind = kind        # 'pure' | 'mon' | 'code' | 'fault' (an error value) | 'unit'
        self.ty = ty            # rust type (normalised) or None
        self.prop = prop        # term is a Lean Prop (comparison), not a Bool


class World:
    """everything parsed from the Rust sources"""
    def __init__(self):
        self.toks = {}
        self.fns = {}       # (impl or None, name) -> (file, params, ret, range)
        self.structs = {}   # name -> (kind, fields)
        self.enums = {}     # name -> variants
        self.consts = {}    # (impl or None, name) -> (file, type, expr)
        for f in FILES:
            with open(os.path.join(REPO, f), encoding="utf-8") as fh:
                toks, items = parse_source(fh.read())
            self.toks[f] = toks
            for it in items:
                if it[0] == "fn":
                    self.fns.setdefault((it[2], it[1]), (f, it[3], it[4], it[5]))
                elif it[0] == "struct":
                    self.structs.setdefault(it[1], (it[2], it[3]))
                elif it[0] == "enum":
                    self.enums.setdefault(it[1], it[2])
                elif it[0] == "const":
                    self.consts.setdefault((it[2], it[1]), (f, it[3], it[4]))


def lean_name(impl, fn):
    return f"{impl}_{fn}" if impl else fn


class Tr:
    def __init__(self, world, generated, impl, fn_name, params, ret, const_ctx=False):
        self.w = world
        self.generated = generated      # (impl, fn) -> rust return type, for everything in TARGETS
        self.impl = impl
        self.fn_name = fn_name
        self.ret = norm_type(ret, impl) if ret else ""
        self.ret_is_result = self.ret.startswith("Result<")
        self.scope = {}
        self.mutables = set()
        self.uses = {}                  # bare variant name -> enum name ; alias -> enum name
        self.aliases = {}
        self.tmp = 0
        self.const_ctx = const_ctx
        self.last_ty = None
        self.sink = None
        self.trace = (impl, fn_name) in TRACE_TARGETS
        if self.trace:
            self.sink = "trace_"
            self.mutables.add("trace_")
        self.stopped = False
        self.mutself = (impl, fn_name) in MUTSELF_TARGETS
        if self.mutself:
            self.sink = "(self, trace_)" if self.trace else "self"
            self.mutables.add("self")
        self.iters = []
        self.file = None
        self.labels = []
        for p in params:
            if p[0] == "self":
                self.scope["self"] = impl
            else:
                pat, ty = p
                if pat[0] != "pbind":
                    raise Unsupported("parameter pattern")
                if pat[1] in SKIP_PARAMS:
                    continue
                nt = norm_type(ty, impl)
                self.scope[pat[1]] = nt
                if is_sink(nt):
                    self.sink = pat[1]
                    self.mutables.add(pat[1])
                if is_file(nt):
                    self.sink = pat[1]
                    self.file = pat[1]
                    self.mutables.add(pat[1])
                    self.scope[pat[1]] = "File"
                if is_iter(nt):
                    self.iters.append(pat[1])
                    self.mutables.add(pat[1])

    # ------------------------------------------------------------------ helpers
    def sink_term(self):
        return self.sink if self.sink.startswith("(") else mangle(self.sink)

    def fresh(self):
        self.tmp += 1
        return f"t{self.tmp}"

    def atom(self, v):
        """make `v` a pure single-line term, binding it first when it is monadic / code"""
        if v.kind == "pure":
            return v.stmts, v.term
        if v.kind == "fault":
            raise Unsupported("error value used as a value")
        if v.kind in ("unit", "mon_unit"):
            return v.stmts, "()"
        t = self.fresh()
        if v.kind == "mon":
            return v.stmts + [("letm", t, v.term)], t
        return v.stmts + [("letc", t, v.term)], t

    def atom_of(self, e):
        v = self.tr(e)
        st, t = self.atom(v)
        return st, t, v

    def resolve_enum(self, path):
        """-> (enum name, variant) for a path naming an enum variant, else None"""
        if len(path) >= 2:
            en = self.aliases.get(path[-2], path[-2])
            if en == "Self":
                en = self.impl
            if en in ENUMS or en in STD_ENUMS or en in ERROR_ENUMS:
                return en, path[-1]
            return None
        if path[0] in self.uses:
            return self.uses[path[0]], path[0]
        return None

    def enum_ctor(self, en, variant):
        if en in ENUMS:
            lean, vmap = ENUMS[en]
            if variant not in vmap:
                raise Unsupported(f"enum {en} has no modelled variant {variant}")
            return f"{lean}.{vmap[variant]}", ENUM_ARITY[en][variant]
        lean, vmap = STD_ENUMS[en]
        if variant not in vmap:
            raise Unsupported(f"enum {en} has no variant {variant}")
        return f"{lean}.{vmap[variant][0]}", vmap[variant][1]

    def variant_fields(self, en, variant):
        for v, kind, fs in self.w.enums.get(en, []):
            if v == variant:
                return kind, fs
        return None, None

    def handle_use(self, raw):
        # `use EndArea as End;`  `use StartArea::{Clipped, Found};`  `use StartArea::Found;`
        toks = [t for t in raw[1:]]
        text = "".join(toks)
        m = re.match(r"(?:\w+::)*(\w+)as(\w+)$", text)
        if m and "as" in toks:
            i = toks.index("as")
            self.aliases[toks[i + 1]] = toks[i - 1]
            return
        m = re.match(r"(?:\w+::)*(\w+)::\{([\w,]+)\}$", text)
        if m:
            for v in m.group(2).split(","):
                if v:
                    self.uses[v] = m.group(1)
            return
        m = re.match(r"(?:\w+::)*(\w+)::(\w+)$", text)
        if m and (m.group(1) in ENUMS or m.group(1) in STD_ENUMS):
            self.uses[m.group(2)] = m.group(1)
            return
        raise Unsupported(f"use statement {text}")

    def field_type(self, struct, field):
        st = self.w.structs.get(struct)
        if not st:
            return None
        kind, fields = st
        if kind == "named":
            for f, t in fields:
                if f == field:
                    return norm_type(t, struct)
        if kind == "tuple" and field.isdigit() and int(field) < len(fields):
            return norm_type(fields[int(field)], struct)
        return None

    # ------------------------------------------------------------------ patterns
    def pats(self, pat, scrut_ty=None):
        """-> list of (lean pattern string, {var: type}) alternatives"""
        k = pat[0]
        if k == "pwild":
            return [("_", {})]
        if k == "pbind":
            return [(mangle(pat[1]), {pat[1]: scrut_ty})]
        if k == "pint":
            return [(str(pat[1]), {})]
        if k == "prange":
            if pat[2] is None:
                return [(f"_ + {pat[1]}", {})]
            raise Unsupported("bounded range pattern")
        if k == "pref":
            return self.pats(pat[1], scrut_ty)
        if k == "por":
            out = []
            for p in pat[1]:
                out += self.pats(p, scrut_ty)
            return out
        if k == "ptuple":
            tys = split_tuple_type(scrut_ty) if scrut_ty and scrut_ty.startswith("(") else [None] * len(pat[1])
            if len(tys) != len(pat[1]):
                tys = [None] * len(pat[1])
            alts = [("", {})]
            parts = [self.pats(p, t) for p, t in zip(pat[1], tys)]
            combos = [([], {})]
            for alts_i in parts:
                combos = [(a + [s], {**b, **bs}) for a, b in combos for s, bs in alts_i]
            return [("(" + ", ".join(a) + ")", b) for a, b in combos]
        if k in ("ptstruct", "pstruct", "ppath"):
            path = pat[1]
            name = path[-1]
            if k == "ppath" and name == "None":
                return [("none", {})]
            if k == "ptstruct" and name == "Some" and len(path) == 1:
                inner = generic_arg(scrut_ty, "Option")
                return [(f"some {self.paren_pat(s)}", b) for s, b in self.pats(pat[2][0], inner)]
            if k == "ptstruct" and name in ("Ok", "Err") and len(path) == 1 and (scrut_ty or "").startswith("R<"):
                # the scrutinee is a call in the error monad: match on the `Except` value itself
                inner = pat[2][0]
                if name == "Ok":
                    return [(f"Except.ok {self.paren_pat(s_)}", b) for s_, b in self.pats(inner, scrut_ty[2:-1])]
                if inner[0] == "pbind":
                    return [(f"Except.error {mangle(inner[1])}", {inner[1]: "Fault"})]
                if inner[0] == "pwild":
                    return [("Except.error _", {})]
                if inner[0] == "ppath":
                    r = self.resolve_enum(inner[1])
                    if r and r[0] in ERROR_ENUMS:
                        return [(f'Except.error (Fault.err "{r[1]}")', {})]
                raise Unsupported("Err(..) pattern")
            if k == "ptstruct" and name in ("Ok", "Err") and len(path) == 1:
                if scrut_ty != "BRes":
                    raise Unsupported("match on a Result other than a binary search result")
                return [(f"Rs.BRes.{name.lower()} {self.paren_pat(s)}", b) for s, b in self.pats(pat[2][0], "usize")]
            if k == "ptstruct" and name in NEWTYPES:
                return self.pats(pat[2][0], "u64")
            r = self.resolve_enum(path)
            if not r:
                raise Unsupported(f"pattern path {'::'.join(path)}")
            en, variant = r
            ctor, arity = self.enum_ctor(en, variant)
            vkind, vfields = self.variant_fields(en, variant)
            if k == "ppath":
                subs = []
            elif k == "ptstruct":
                subs = list(pat[2])
                ftys = [norm_type(t) for t in vfields] if vkind == "tuple" else [None] * len(subs)
            else:
                if vkind != "named":
                    raise Unsupported(f"struct pattern on variant {variant}")
                given = dict(pat[2])
                for f in given:
                    if f not in [x[0] for x in vfields]:
                        raise Unsupported(f"variant {variant} has no field {f}")
                subs = [given.get(f, ("pwild",)) for f, _ in vfields]
                ftys = [norm_type(t) for _, t in vfields]
            if len(subs) != arity:
                raise Unsupported(f"variant {en}::{variant}: {len(subs)} fields, the model has {arity}")
            if k == "ppath":
                return [(ctor, {})]
            if k == "ptstruct" and (vkind != "tuple" and en in ENUMS):
                raise Unsupported(f"tuple pattern on variant {variant}")
            if en == "TimeRange":
                ftys = ["RangeInclusive<u64>"] * len(subs)
            elif en in STD_ENUMS:
                ftys = [generic_arg(scrut_ty, en)] * len(subs)
            combos = [([], {})]
            for p, t in zip(subs, ftys):
                combos = [(a + [self.paren_pat(s)], {**b, **bs}) for a, b in combos for s, bs in self.pats(p, t)]
            return [(ctor + "".join(" " + x for x in a), b) for a, b in combos]
        raise Unsupported(f"pattern {k}")

    @staticmethod
    def paren_pat(s):
        return f"({s})" if " " in s and not s.startswith("(") else s

    # ------------------------------------------------------------------ expressions
    def tr(self, e):
        k = e[0]
        m = getattr(self, "tr_" + k, None)
        if not m:
            raise Unsupported(f"expression form {k}")
        return m(e)

    def tr_int(self, e):
        return Val([], str(e[1]), "pure", "int")

    def tr_bool(self, e):
        return Val([], "true" if e[1] else "false", "pure", "bool")

    def tr_ref(self, e):
        return self.tr(e[1])

    def tr_deref(self, e):
        return self.tr(e[1])

    def tr_cast(self, e):
        v = self.tr(e[1])
        t = norm_type(e[2])
        if t not in ("u64", "usize", "u128"):
            raise Unsupported(f"cast to {t}")
        v.ty = t
        return v

    def tr_path(self, e):
        path = e[1]
        if len(path) == 1:
            n = path[0]
            if n in self.scope:
                return Val([], mangle(n), "pure", self.scope[n])
            if n == "None":
                return Val([], "none", "pure", "Option<?>")
            if n == "true" or n == "false":
                return Val([], n, "pure", "bool")
            if (None, n) in self.w.consts and ((None, "const:" + n) in self.generated):
                cty = norm_type(self.w.consts[(None, n)][1])
                return Val([], n, "pure", "[u8]" if is_bytes(cty) else cty)
        if len(path) == 2 and path[1] == "MAX" and path[0] in ("u16", "u64", "usize", "u32", "u8"):
            bits = {"u8": 8, "u16": 16, "u32": 32, "u64": 64, "usize": 64}[path[0]]
            return Val([], str(2 ** bits - 1), "pure", path[0])
        if len(path) == 2 and (path[0], "const:" + path[1]) in self.generated:
            return Val([], f"{path[0]}_{path[1]}", "pure", norm_type(self.w.consts[(path[0], path[1])][1], path[0]))
        r = self.resolve_enum(path)
        if r:
            en, variant = r
            if en in ERROR_ENUMS:
                return Val([], f'(Fault.err "{variant}")', "fault")
            ctor, arity = self.enum_ctor(en, variant)
            if arity != 0:
                raise Unsupported(f"constructor {variant} used without arguments")
            return Val([], ctor, "pure", en)
        raise Unsupported(f"path {'::'.join(path)}")

    def arith(self, op, a, b):
        sa, ta, va = self.atom_of(a)
        sb, tb, vb = self.atom_of(b)
        ty = va.ty if va.ty not in (None, "int") else vb.ty
        if self.const_ctx:
            return Val(sa + sb, f"({ta} {op} {tb})", "pure", ty)
        fn = {"+": "Rs.add", "-": "Rs.sub", "*": "Rs.mul", "/": "Rs.div", "%": "Rs.rem"}.get(op)
        if not fn:
            raise Unsupported(f"operator {op}")
        if "u128" in (va.ty, vb.ty) and op in ("+", "*"):
            fn += "128"
            ty = "u128"
        return Val(sa + sb, f"({fn} {ta} {tb})", "mon", ty)

    def tr_bin(self, e):
        op, a, b = e[1], e[2], e[3]
        if op in ("+", "-", "*", "/", "%"):
            return self.arith(op, a, b)
        if op in ("==", "!=", "<", ">", "<=", ">="):
            sa, ta, va = self.atom_of(a)
            sb, tb, vb = self.atom_of(b)
            if any((v.ty or "").startswith("Option<") for v in (va, vb)) and op in ("<", ">", "<=", ">="):
                # `Option`'s derived order: None < Some(_), Some by value
                term = {"<": f"(Rs.optLt {ta} {tb} = true)", ">": f"(Rs.optLt {tb} {ta} = true)",
                        "<=": f"(Rs.optLt {tb} {ta} = false)", ">=": f"(Rs.optLt {ta} {tb} = false)"}[op]
                return Val(sa + sb, term, "pure", "bool", prop=True)
            lop = {"==": "=", "!=": "≠", "<": "<", ">": ">", "<=": "≤", ">=": "≥"}[op]
            return Val(sa + sb, f"({ta} {lop} {tb})", "pure", "bool", prop=True)
        if op in ("&&", "||"):
            va = self.cond(a)
            vb = self.cond(b)
            if vb[0]:
                raise Unsupported("effectful right operand of && / ||")
            lop = "∧" if op == "&&" else "∨"
            return Val(va[0], f"({va[1]} {lop} {vb[1]})", "pure", "bool", prop=True)
        raise Unsupported(f"operator {op}")

    def tr_un(self, e):
        if e[1] == "!":
            st, c = self.cond(e[2])
            return Val(st, f"(¬ {c})", "pure", "bool", prop=True)
        raise Unsupported(f"unary {e[1]}")

    def cond(self, e):
        """-> (stmts, Lean Prop term)"""
        v = self.tr(e)
        st, t = self.atom(v)
        if v.prop:
            return st, t
        return st, f"({t} = true)"

    def tr_tuple(self, e):
        st, ts, tys = [], [], []
        for x in e[1]:
            s, t, v = self.atom_of(x)
            st += s; ts.append(t); tys.append(v.ty or "?")
        return Val(st, "(" + ", ".join(ts) + ")", "pure", "(" + ",".join(tys) + ")")

    def tr_range(self, e):
        if e[1] is None or e[2] is None or not e[3]:
            raise Unsupported("only inclusive ranges a..=b are values here")
        sa, ta, va = self.atom_of(e[1])
        sb, tb, vb = self.atom_of(e[2])
        return Val(sa + sb, f"({ta}, {tb})", "pure", "RangeInclusive<u64>")

    def tr_field(self, e):
        s, t, v = self.atom_of(e[1])
        f = e[2]
        ty = v.ty
        if f == "0" and (ty in NEWTYPES or ty is None or ty in INT_TYPES):
            if ty is None:
                raise Unsupported("`.0` on a value of unknown type")
            return Val(s, t, "pure", "u64" if ty != "PayloadSize" else "usize")
        if ty in STRUCTS:
            lean, fmap = STRUCTS[ty]
            if f not in fmap:
                raise Unsupported(f"field {ty}.{f} is not modelled")
            fty = self.field_type(ty, f)
            if fmap[f] == "@index":
                return Val(s, f"(Rs.indexOf {t})", "pure", "Index")
            if fmap[f] == "@same":
                return Val(s, t, "pure", fty)
            return Val(s, f"{t}.{fmap[f]}", "pure", fty)
        raise Unsupported(f"field .{f} on a value of type {ty}")

    def tr_array(self, e):
        st, ts = [], []
        for x in e[1]:
            s_, t, _v = self.atom_of(x)
            st += s_; ts.append(t)
        return Val(st, "([" + ", ".join(ts) + "] : Bytes)", "pure", "[u8]")

    def tr_arrayrep(self, e):
        sv, tv, vv = self.atom_of(e[1])
        sn, tn, vn = self.atom_of(e[2])
        return Val(sv + sn, f"(List.replicate {tn} ({tv} : UInt8))", "pure", "[u8]")

    def tr_index(self, e):
        sa, ta, va = self.atom_of(e[1])
        if is_bytes(va.ty):
            if e[2][0] == "range":
                _, lo, hi, incl = e[2]
                if incl:
                    raise Unsupported("inclusive slice range")
                st = list(sa)
                if lo is not None:
                    s1, tlo, _ = self.atom_of(lo); st += s1
                if hi is not None:
                    s2, thi, _ = self.atom_of(hi); st += s2
                if lo is not None and hi is not None:
                    return Val(st, f"(Rs.slice {ta} {tlo} {thi})", "mon", "[u8]")
                if lo is not None:
                    return Val(st, f"(Rs.sliceFrom {ta} {tlo})", "mon", "[u8]")
                if hi is not None:
                    return Val(st, f"(Rs.slice {ta} 0 {thi})", "mon", "[u8]")
                return Val(st, ta, "pure", "[u8]")
            sb, tb, vb = self.atom_of(e[2])
            return Val(sa + sb, f"(Rs.idx {ta} {tb})", "mon", "u8")
        sb, tb, vb = self.atom_of(e[2])
        elem = generic_arg(va.ty, "Vec")
        if elem is None:
            raise Unsupported(f"index into {va.ty}")
        return Val(sa + sb, f"(Rs.idx {ta} {tb})", "mon", norm_type(elem))

    def tr_try(self, e):
        x = e[1]
        # `X.map(Ok).unwrap_or_else(|| { ..; Ok(v) })?`  is  `match X { Some(a) => a, None => { ..; v } }`: the closure's
        # own `?`s leave the function with the same error the outer `?` would
        if x[0] == "mcall" and x[2] == "unwrap_or_else" and x[1][0] == "mcall" and x[1][2] == "map" \
           and x[1][3] == [("path", ["Ok"])] and x[3] and x[3][0][0] == "closure" and not x[3][0][1]:
            body = x[3][0][2]
            if body[0] != "block" or body[2] is None or body[2][0] != "call" or body[2][1] != ("path", ["Ok"]):
                raise Unsupported("unwrap_or_else closure that does not end in Ok(..)")
            nb = ("block", body[1], body[2][2][0])
            return self.tr(("match", x[1][1], [([("ptstruct", ["Some"], [("pbind", "some_v", False)])], None, ("path", ["some_v"])),
                                               ([("ppath", ["None"])], None, nb)]))
        v = self.tr(e[1])
        if v.kind == "mon_unit":
            return v
        if v.kind not in ("mon", "code"):
            raise Unsupported("`?` on a value that is not a Result in this translation")
        return v

    def tr_struct(self, e):
        path, fields, base = e[1], e[2], e[3]
        if base is not None:
            raise Unsupported("struct update syntax")
        r = self.resolve_enum(path) if len(path) > 1 or path[0] in self.uses else None
        if r:
            en, variant = r
            if en in ERROR_ENUMS:
                return Val([], f'(Fault.err "{variant}")', "fault")
            ctor, arity = self.enum_ctor(en, variant)
            vkind, vfields = self.variant_fields(en, variant)
            if vkind != "named":
                raise Unsupported("struct literal for a non-struct variant")
            given = dict(fields)
            if set(given) != set(f for f, _ in vfields) or len(vfields) != arity:
                raise Unsupported(f"fields of {variant}")
            st, ts = [], []
            for f, _ in vfields:
                s, t, _v = self.atom_of(given[f])
                st += s; ts.append(t)
            return Val(st, "(" + ctor + "".join(" " + x for x in ts) + ")", "pure", en)
        name = path[-1]
        if name == "Self":
            name = self.impl
        if name not in STRUCTS:
            raise Unsupported(f"struct literal {name}")
        lean, fmap = STRUCTS[name]
        if set(f for f, _ in fields) != set(fmap):
            raise Unsupported(f"struct literal {name}: fields differ from the model's")
        st, parts = [], []
        for f, x in fields:
            s, t, _v = self.atom_of(x)
            st += s; parts.append(f"{fmap[f]} := {t}")
        return Val(st, "({ " + ", ".join(parts) + " } : " + lean + ")", "pure", name)

    def tr_macro(self, e):
        name = e[1]
        if name in ("unreachable", "panic", "todo", "unimplemented"):
            return Val([], "(Except.error Fault.panic)", "mon", None)
        if name in ("debug", "trace", "info", "warn", "error"):
            return Val([], "()", "unit")
        if name == "vec":
            from rsparse import Parser
            toks = e[2]
            depth = 0
            semi = None
            for i, t in enumerate(toks):
                if t[1] in ("(", "[", "{"):
                    depth += 1
                elif t[1] in (")", "]", "}"):
                    depth -= 1
                elif t[1] == ";" and depth == 0:
                    semi = i
            if semi is None:
                raise Unsupported("vec! with a list of elements")
            v = Parser(toks[:semi] + [("eof", "", 0)]).expr()
            n = Parser(toks[semi + 1:] + [("eof", "", 0)]).expr()
            return self.tr_arrayrep(("arrayrep", v, n))
        if name in ("assert", "debug_assert"):
            toks = e[2]
            depth = 0
            cut = len(toks)
            for i, t in enumerate(toks):
                if t[1] in ("(", "[", "{"):
                    depth += 1
                elif t[1] in (")", "]", "}"):
                    depth -= 1
                elif t[1] == "," and depth == 0:
                    cut = i
                    break
            from rsparse import Parser
            p = Parser(toks[:cut] + [("eof", "", 0)])
            c = p.expr()
            st, ct = self.cond(c)
            return Val(st + [("unless", ct, [("throw", "Fault.panic")])], "()", "unit")
        raise Unsupported(f"macro {name}!")

    def copy_from_slice(self, dst, src):
        """`local[a..b].copy_from_slice(src)` on a local `let mut` byte buffer"""
        if dst[0] != "index" or dst[1][0] != "path" or len(dst[1][1]) != 1 or dst[1][1][0] not in self.mutables \
           or dst[2][0] != "range" or dst[2][1] is None or dst[2][2] is None or dst[2][3]:
            raise Unsupported("copy_from_slice into something other than local[a..b]")
        name = mangle(dst[1][1][0])
        s1, tlo, _ = self.atom_of(dst[2][1])
        s2, thi, _ = self.atom_of(dst[2][2])
        s3, tsrc, vs = self.atom_of(src)
        if not is_bytes(vs.ty):
            raise Unsupported("copy_from_slice from something that is not a byte slice")
        t = self.fresh()
        return Val(s1 + s2 + s3 + [("letm", t, f"(Rs.copyFromSlice {name} {tlo} {thi} {tsrc})"), ("assign", name, t)], "()", "mon_unit")

    def closure1(self, c, arg_ty):
        """closure of one parameter -> (param name, Val of body)"""
        if c[0] != "closure" or len(c[1]) != 1:
            raise Unsupported("expected a one-parameter closure")
        p = c[1][0]
        if p[0] == "pref":
            p = p[1]
        if p[0] != "pbind":
            raise Unsupported("closure parameter pattern")
        saved = dict(self.scope)
        self.scope[p[1]] = arg_ty
        body = c[2]
        while body[0] == "block" and not body[1] and body[2] is not None:
            body = body[2]
        v = self.tr(body)
        self.scope = saved
        return mangle(p[1]), v

    def tr_call(self, e):
        f, args = e[1], e[2]
        if f[0] != "path":
            raise Unsupported("call of a computed function")
        path = f[1]
        name = path[-1]
        if len(path) == 1 and name == "Some":
            s, t, v = self.atom_of(args[0])
            return Val(s, f"(some {t})", "pure", f"Option<{v.ty}>")
        if len(path) == 1 and name == "Ok":
            if not self.ret_is_result:
                raise Unsupported("Ok(..) outside a function returning Result")
            if args[0][0] == "tuple" and not args[0][1]:
                return Val([], "()", "pure", "()")
            return self.tr(args[0])
        if len(path) == 1 and name == "Err":
            if not self.ret_is_result:
                raise Unsupported("Err(..) outside a function returning Result")
            v = self.tr(args[0])
            if v.kind != "fault":
                raise Unsupported("Err of a computed value")
            return Val(v.stmts, f"(Except.error {v.term})", "mon", None)
        if name in NEWTYPES or (name == "Self" and self.impl in NEWTYPES):
            s, t, v = self.atom_of(args[0])
            return Val(s, t, "pure", name if name != "Self" else self.impl)
        if len(path) == 2 and name == "try_from" and path[0] == "u16":
            s, t, v = self.atom_of(args[0])
            return Val(s, f"(Rs.tryU16 {t})", "pure", "Option<u16>")
        if len(path) == 2 and name in ("try_from", "from") and path[0] in ("usize", "u64", "u128"):
            s, t, v = self.atom_of(args[0])
            if name == "from":
                return Val(s, t, "pure", path[0])
            if path[0] == "u128":
                return Val(s, f"(some {t})", "pure", "Option<u128>")
            return Val(s, f"(Rs.tryU64 {t})", "pure", f"Option<{path[0]}>")
        r = self.resolve_enum(path)
        if r:
            en, variant = r
            if en in ERROR_ENUMS:
                if len(args) == 1 and args[0][0] == "path" and len(args[0][1]) == 1 and self.scope.get(args[0][1][0]) == "Fault":
                    return Val([], mangle(args[0][1][0]), "fault")      # an error wrapped into the API's error: only the wrapping changes
                return Val([], f'(Fault.err "{variant}")', "fault")
            ctor, arity = self.enum_ctor(en, variant)
            if len(args) != arity:
                raise Unsupported(f"constructor {variant}: arity")
            st, ts = [], []
            for a in args:
                s, t, _v = self.atom_of(a)
                st += s; ts.append(t)
            return Val(st, "(" + ctor + "".join(" " + x for x in ts) + ")", "pure", en)
        # free or associated function
        key = (None, name) if len(path) == 1 else (self.aliases.get(path[-2], path[-2]), name)
        if key[0] == "Self":
            key = (self.impl, name)
        if len(path) == 1 and name in FILE_EXTERNALS:
            if not self.file or len(args) != 2:
                raise Unsupported("file external outside a function with a file")
            x = args[0]
            while x[0] in ("ref", "paren"):
                x = x[-1]
            if x != ("path", [self.file]):
                raise Unsupported("file external on something that is not the file")
            sp, tp, _ = self.atom_of(args[1])
            f = mangle(self.file)
            t = self.fresh()
            return Val(sp + [("letm", t, FILE_EXTERNALS[name].format(f, tp)), ("assign", f, f"{t}.1")], f"(pure {t}.2)", "mon", "bool")
        if len(path) == 1 and name in EXTERNALS:
            tmpl, kind, rty = EXTERNALS[name]
            st, ts = [], []
            for a in args:
                s, t, _v = self.atom_of(a)
                st += s; ts.append(t)
            return Val(st, tmpl.format(*ts), kind, rty)
        if key in self.generated or (key[0] is None and name not in EXTERNALS and self.ensure_helper(key)) \
           or (key[0] is not None and self.ensure_helper(key)):
            return self.call_generated(key, None, args)
        # a path like `meta::lines_per_metainfo` / `super::inline_meta::meta::lines_per_metainfo`
        if (None, name) in self.generated and len(path) > 1 and path[-2][0].islower():
            return self.call_generated((None, name), None, args)
        raise Unsupported(f"call of {'::'.join(path)}")

    def ensure_helper(self, key):
        """a function the sources define but TARGETS does not list: translate it on demand"""
        if key in self.generated or key not in self.w.fns:
            return key in self.generated
        if getattr(self.w, "helper_depth", 0) > 6:
            raise Unsupported("helper functions nested too deep")
        self.generated[key] = self.w.fns[key][2]
        self.w.helper_depth = getattr(self.w, "helper_depth", 0) + 1
        try:
            nm, lines = translate_one(self.w, self.generated, key[0], key[1], None)
        except Unsupported as ex:
            del self.generated[key]
            raise Unsupported(f"helper {lean_name(*key)}: {ex}")
        finally:
            self.w.helper_depth -= 1
        self.w.helper_defs.append((nm, lines))
        return True

    def call_generated(self, key, recv, args):
        rty = self.generated[key]
        st, ts = [], []
        if recv is not None:
            s, t = self.atom(recv)
            st += s; ts.append(t)
        sink_action = None
        file_arg = False
        cparams = [p for p in self.w.fns[key][1] if p[0] != "self"] if key in self.w.fns else []
        for k, a in enumerate(args):
            if k < len(cparams) and is_file(norm_type(cparams[k][1], key[0])):
                x = a
                while x[0] in ("ref", "paren"):
                    x = x[-1]
                if not self.file or x != ("path", [self.file]):
                    raise Unsupported("a file argument that is not this function's file")
                ts.append(mangle(self.file))
                file_arg = True
                continue
            if k < len(cparams) and is_sink(norm_type(cparams[k][1], key[0])):
                x = a
                while x[0] in ("ref", "paren"):
                    x = x[-1]
                if not (self.trace and x[0] == "field" and x[1] == ("path", ["self"]) and (self.impl, x[2]) in SINK_FIELDS):
                    raise Unsupported("a write sink that is not a file of self: " + repr(a)[:80])
                sink_action = SINK_FIELDS[(self.impl, x[2])]
                continue
            s, t, _v = self.atom_of(a)
            st += s; ts.append(t)
        ret = norm_type(rty, key[0]) if rty else "()"
        if ret.startswith("Result<"):
            ret = generic_arg(ret, "Result")
        if ret == "Self" and key[0]:
            ret = key[0]
        if ret.startswith("Option<Self>") and key[0]:
            ret = f"Option<{key[0]}>"
        for tgt in TARGETS:
            if (tgt[1], tgt[2]) == key and tgt[3]:
                mine = [x for x in TARGETS if (x[1], x[2]) == (self.impl, self.fn_name)]
                if not mine or mine[0][3] != tgt[3]:
                    raise Unsupported("callee needs an extra parameter the caller does not have")
                ts.append(tgt[3].strip("()").split(":")[0].strip())
        if file_arg:
            t = self.fresh()
            call = "(" + lean_name(*key) + "".join(" " + x for x in ts) + ")"
            return Val(st + [("letm", t, call), ("assign", mangle(self.file), f"{t}.1")], f"(pure {t}.2)", "mon", ret)
        if sink_action:
            t = self.fresh()
            call = "(" + lean_name(*key) + "".join(" " + x for x in ts) + ")"
            return Val(st + [("letm", t, call), ("assign", "trace_", f"trace_ ++ [{sink_action.format(t + '.1')}]")], f"(pure {t}.2)", "mon", ret)
        return Val(st, "(" + lean_name(*key) + "".join(" " + x for x in ts) + ")", "mon", ret)

    def tr_mcall(self, e):
        recv_e, name, args = e[1], e[2], e[3]
        # iterator adaptors that only make sense to the `for` translation
        if name in ("iter", "clone", "cloned", "copied", "by_ref", "into_iter", "as_ref"):
            v = self.tr(recv_e)
            if v.ty and name in ("cloned", "copied"):
                pass
            return v
        if name == "copy_from_slice":
            return self.copy_from_slice(recv_e, args[0])
        if name == "map_err":
            return self.tr(recv_e)                      # only the error's wrapping changes
        if name == "and_then" and args and args[0][0] == "closure" and len(args[0][1]) == 1:
            return self.tr(("match", recv_e, [([("ptstruct", ["Some"], [args[0][1][0]])], None, args[0][2]),
                                              ([("ppath", ["None"])], None, ("path", ["None"]))]))
        if name == "transpose":
            v = self.tr(recv_e)                          # Option<Result<T>>: the monad already carries the Result
            if v.kind != "mon" or not (v.ty or "").startswith("Option<"):
                raise Unsupported("transpose of something that is not Option<Result<..>> here")
            return v
        if self.file and recv_e == ("path", [self.file]):
            f = mangle(self.file)
            if name == "len" and not args:
                return Val([], f"(pure {f}.length)", "mon", "u64")
            if name == "set_len" and len(args) == 1:
                sx, tx, _ = self.atom_of(args[0])
                return Val(sx + [("assign", f, f"(Rs.setLen {f} {tx})")], "()", "mon_unit")
            raise Unsupported(f"method .{name}() on the file")
        if name in ("start_bound", "end_bound") and not args:
            v = self.tr(recv_e)
            if (v.ty or "").startswith("implRangeBounds<"):
                s_, t_ = self.atom(v)
                return Val(s_, f"{t_}.{1 if name == 'start_bound' else 2}", "pure", "Bound<u64>")
        if name == "to_le_bytes":
            v = self.tr(recv_e)
            if v.ty in ("u64", "Timestamp"):
                s_, t_ = self.atom(v)
                return Val(s_, f"(BS.leN 8 {t_})", "pure", "[u8]")
            if v.ty == "u16":
                s_, t_ = self.atom(v)
                return Val(s_, f"(BS.le2 {t_})", "pure", "[u8]")
        if name == "write_all" and self.trace:
            chain, r = [], recv_e
            while r[0] == "field":
                chain.insert(0, r[2]); r = r[1]
            if r == ("path", ["self"]) and (self.impl, tuple(chain)) in WRITE_FIELDS:
                sx, tx, vx = self.atom_of(args[0])
                if not is_bytes(vx.ty):
                    raise Unsupported("write_all of something that is not a byte slice")
                return Val(sx + [("assign", "trace_", f"trace_ ++ [{WRITE_FIELDS[(self.impl, tuple(chain))].format(tx)}]")], "()", "mon_unit")
        if recv_e[0] == "field" and recv_e[1] == ("path", ["self"]):
            if (self.impl, recv_e[2]) in IGNORED_FIELDS:
                return Val([], "()", "unit")
            if self.mutself and name == "push" and self.impl in STRUCTS and recv_e[2] in STRUCTS[self.impl][1] \
               and (self.field_type(self.impl, recv_e[2]) or "").startswith("Vec<") and (self.impl, recv_e[2]) not in EFFECT_FIELD_PUSH:
                fld = STRUCTS[self.impl][1][recv_e[2]]
                sx, tx, _ = self.atom_of(args[0])
                return Val(sx + [("assign", "self", "{ self with " + fld + " := self." + fld + " ++ [" + tx + "] }")], "()", "mon_unit")
            if self.trace and name == "push" and (self.impl, recv_e[2]) in EFFECT_FIELD_PUSH:
                sx, tx, _ = self.atom_of(args[0])
                return Val(sx + [("assign", "trace_", f"trace_ ++ [{EFFECT_FIELD_PUSH[(self.impl, recv_e[2])].format(tx)}]")], "()", "mon_unit")
            if self.mutself and (recv_e[2], name) in RESAMPLER_CALLS:
                kind, tmpl, rty = RESAMPLER_CALLS[(recv_e[2], name)]
                st, ts = [], []
                for a in args:
                    s_, t_, _v = self.atom_of(a)
                    st += s_; ts.append(t_)
                if kind == "pure":
                    return Val(st, tmpl.format(*ts, s="self"), "pure", rty)
                fld = STRUCTS[self.impl][1]["resample_state"]
                if kind == "state_add":      # `*self += item` on the library's u64 state
                    t = self.fresh()
                    return Val(st + [("letm", t, f"(Rs.add self.{fld} {ts[0]})"),
                                     ("assign", "self", "{ self with " + fld + " := " + t + " }")], "()", "mon_unit")
                if kind == "state_finish":   # `*self / from_usize(n)`, then `*self = 0`
                    t = self.fresh()
                    return Val(st + [("letm", t, f"(Rs.div self.{fld} {ts[0]})"),
                                     ("assign", "self", "{ self with " + fld + " := 0 }")], t, "pure", rty)
        if self.trace and (None, name) in EFFECT_METHODS:
            tmpl, final = EFFECT_METHODS[(None, name)]
            sx, tx, _ = self.atom_of(args[0])
            if final:
                self.stopped = True
            return Val(sx + [("assign", "trace_", f"trace_ ++ [{tmpl.format(tx)}]")], "()", "mon_unit")
        if name == "contains" and recv_e[0] == "range" and recv_e[1] is not None and recv_e[2] is not None:
            sa, ta, _ = self.atom_of(recv_e[1])
            sb, tb, _ = self.atom_of(recv_e[2])
            sx, tx, _ = self.atom_of(args[0])
            hi = "≤" if recv_e[3] else "<"
            return Val(sa + sb + sx, f"({ta} ≤ {tx} ∧ {tx} {hi} {tb})", "pure", "bool", prop=True)
        if recv_e[0] == "path" and len(recv_e[1]) == 1 and recv_e[1][0] == self.sink and name == "write_all":
            sx, tx, vx = self.atom_of(args[0])
            if not is_bytes(vx.ty):
                raise Unsupported("write_all of something that is not a byte slice")
            return Val(sx + [("assign", mangle(self.sink), f"{mangle(self.sink)} ++ {tx}")], "()", "mon_unit")
        if recv_e[0] == "path" and len(recv_e[1]) == 1 and recv_e[1][0] in self.iters and name == "next":
            it = mangle(recv_e[1][0])
            t = self.fresh()
            elem = generic_arg(self.scope[recv_e[1][0]].replace("implIterator<Item=", "X<"), "X")
            return Val([("letp", t, f"{it}.head?"), ("assign", it, f"{it}.tail")], t, "pure", f"Option<{norm_type(elem)}>")
        if recv_e[0] == "path" and len(recv_e[1]) == 1 and self.scope.get(recv_e[1][0]) == "dynDownSampled" \
           and self.trace and ("dynDownSampled", name) in EFFECT_METHODS:
            tmpl, final = EFFECT_METHODS[("dynDownSampled", name)]
            st, ts = [], []
            for a in args:
                s_, t_, _v = self.atom_of(a)
                st += s_; ts.append(t_)
            return Val(st + [("assign", "trace_", f"trace_ ++ [{tmpl.format(*ts)}]")], "()", "mon_unit")
        recv = self.tr(recv_e)
        ty = recv.ty
        if self.mutself and (ty, name) in MUTSELF_TARGETS and ((ty, name) in self.generated or self.ensure_helper((ty, name))) \
           and recv_e[0] == "field" and recv_e[1] == ("path", ["self"]) and self.impl in STRUCTS \
           and not (self.trace and (ty, name) in EFFECT_METHODS):
            fld = STRUCTS[self.impl][1][recv_e[2]]
            st, ts = list(recv.stmts), []
            for a in args:
                s_, t_, _v = self.atom_of(a)
                st += s_; ts.append(t_)
            t = self.fresh()
            rcv = "(Rs.indexOf self)" if fld == "@index" else "self." + fld
            call = "(" + lean_name(ty, name) + " " + rcv + "".join(" " + x for x in ts) + ")"
            new_self = t + ".1"
            more = []
            if (ty, name) in TRACE_TARGETS:
                if not self.trace or TRACE_TYPE.get((ty, name), "CatchUp") != TRACE_TYPE.get((self.impl, self.fn_name), "CatchUp"):
                    raise Unsupported("a callee with actions of another kind")
                new_self = t + ".1.1"
                more = [("assign", "trace_", f"trace_ ++ {t}.1.2")]
            upd = f"(Rs.withIndex self {new_self})" if fld == "@index" else "{ self with " + fld + " := " + new_self + " }"
            return Val(st + [("letm", t, call), ("assign", "self", upd)] + more, "()", "mon_unit")
        if self.trace and (ty, name) in EFFECT_METHODS:
            tmpl, final = EFFECT_METHODS[(ty, name)]
            if final:
                self.stopped = True
            st, ts = list(recv.stmts), []
            for a in args:
                s_, t_, _v = self.atom_of(a)
                st += s_; ts.append(t_)
            return Val(st + [("assign", "trace_", f"trace_ ++ [{tmpl.format(*ts)}]")], "()", "mon_unit")
        if is_bytes(ty) and name == "len":
            s_, t_ = self.atom(recv)
            return Val(s_, f"{t_}.length", "pure", "usize")
        if (ty, name) in GETTERS:
            s, t = self.atom(recv)
            f = GETTERS[(ty, name)]
            if f == "0":
                return Val(s, t, "pure", "usize" if ty == "PayloadSize" else "u64")
            lean, fmap = STRUCTS[ty]
            return Val(s, f"{t}.{fmap[f]}", "pure", self.field_type(ty, f))
        if (ty, name) in self.generated or (ty in STRUCTS or ty in NEWTYPES) and self.ensure_helper((ty, name)):
            return self.call_generated((ty, name), recv, args)
        s, t = self.atom(recv)
        is_int = ty in INT_TYPES
        is_opt = ty is not None and (ty.startswith("Option<"))
        is_vec = ty is not None and ty.startswith("Vec<")
        if is_int and name in ("saturating_sub", "saturating_add", "saturating_mul", "checked_add", "checked_sub", "max", "min"):
            sb, tb, vb = self.atom_of(args[0])
            term, rty = {
                "saturating_sub": (f"({t} - {tb})", ty), "saturating_add": (f"(Rs.satAdd {t} {tb})", ty),
                "saturating_mul": (f"(Rs.satMul {t} {tb})", ty),
                "checked_add": (f"(Rs.checkedAdd {t} {tb})", f"Option<{ty}>"), "checked_sub": (f"(Rs.checkedSub {t} {tb})", f"Option<{ty}>"),
                "max": (f"(max {t} {tb})", ty), "min": (f"(min {t} {tb})", ty)}[name]
            if ty == "int" and vb.ty:
                rty = rty.replace("int", vb.ty)
            return Val(s + sb, term, "pure", rty)
        if is_opt and name in ("expect", "unwrap"):
            return Val(s, f"(Rs.expect {t})", "mon", generic_arg(ty, "Option"))
        if is_opt and name == "ok_or":
            v = self.tr(args[0])
            if v.kind != "fault":
                raise Unsupported("ok_or of a computed value")
            return Val(s, f"(Rs.okOr {t} {v.term})", "mon", generic_arg(ty, "Option"))
        if is_opt and name == "map":
            pn, body = self.closure1(args[0], generic_arg(ty, "Option"))
            if body.kind not in ("pure", "mon"):
                raise Unsupported("closure body too complex: kind " + body.kind)
            if body.stmts:
                parts = []
                for it in body.stmts:
                    if it[0] == "letm":
                        parts.append(f"let {it[1]} ← {it[2]}")
                    elif it[0] == "letp":
                        parts.append(f"let {it[1]} := {it[2]}")
                    else:
                        raise Unsupported("closure body too complex: " + repr(it)[:200])
                parts.append(body.term if body.kind == "mon" else f"pure {body.term}")
                return Val(s, f"(Option.mapM (fun {pn} => do " + "; ".join(parts) + f") {t})", "mon", f"Option<{body.ty}>")
            if body.kind == "pure":
                return Val(s, f"(Option.map (fun {pn} => {body.term}) {t})", "pure", f"Option<{body.ty}>")
            return Val(s, f"(Option.mapM (fun {pn} => {body.term}) {t})", "mon", f"Option<{body.ty}>")
        if is_opt and name == "unwrap_or":
            sb, tb, vb = self.atom_of(args[0])
            return Val(s + sb, f"(Option.getD {t} {tb})", "pure", generic_arg(ty, "Option"))
        if is_vec and name == "len":
            return Val(s, f"{t}.length", "pure", "usize")
        if is_vec and name in ("first", "last"):
            return Val(s, f"{t}.head?" if name == "first" else f"{t}.getLast?", "pure", f"Option<{generic_arg(ty, 'Vec')}>")
        if is_vec and name == "binary_search_by_key":
            sk, tk, vk = self.atom_of(args[0])
            pn, body = self.closure1(args[1], generic_arg(ty, "Vec"))
            if body.stmts or body.kind != "pure":
                raise Unsupported("key closure too complex")
            return Val(s + sk, f"(Rs.bsearchKey {t} (fun {pn} => {body.term}) {tk})", "pure", "BRes")
        if ty == "RangeInclusive<u64>" or (ty or "").startswith("RangeInclusive<"):
            if name == "start":
                return Val(s, f"{t}.1", "pure", "u64")
            if name == "end":
                return Val(s, f"{t}.2", "pure", "u64")
        if name == "enumerate":
            return Val(s, t, "pure", f"Enumerate<{ty}>")
        raise Unsupported(f"method .{name}() on a value of type {ty}")

    # ----- block-like expressions become IR code
    def tr_block(self, e):
        self.last_ty = None
        sq = self.seq(e, "value")
        return Val([], ("do", sq), "code", self.last_ty)

    def tr_if(self, e):
        st, c = self.cond(e[1])
        self.last_ty = None
        then = self.seq(e[2], "value")
        ty = self.last_ty
        self.last_ty = None
        els = self.seq(e[3], "value") if e[3] else None
        if els is None:
            raise Unsupported("if without else used as a value")
        if ty is None or ("?" in ty and self.last_ty is not None):
            ty = self.last_ty
        return Val(st, ("if", c, then, els), "code", ty)

    def tr_match(self, e, mode="value"):
        def is_res_pat(p):
            return p[0] == "ptstruct" and p[1] in (["Ok"], ["Err"])
        if all(all(is_res_pat(p) for p in arm[0]) for arm in e[2]):
            v0 = self.tr(e[1])
            if v0.kind == "mon" and v0.ty != "BRes":
                code, mty = self.match_arms(v0.term, f"R<{v0.ty}>", e[2], mode)
                self.last_ty = mty
                return Val(v0.stmts, code, "code", mty)
        s, t, v = self.atom_of(e[1])
        code, mty = self.match_arms(t, v.ty, e[2], mode)
        self.last_ty = mty
        return Val(s, code, "code", mty)

    def match_arms(self, t, scrut_ty, rust_arms, mode):
        arms = []
        mty = None
        rust_arms = list(rust_arms)
        k = -1
        while k + 1 < len(rust_arms):
            k += 1
            pats, guard, body = rust_arms[k]
            self.last_ty = None
            if guard is not None:
                # `P if g => A,  P => B`  becomes  `| P => if g then A else B` (the later arm with the
                # same pattern is the fall-through; anything else is outside the subset)
                alts = []
                for p in pats:
                    alts += self.pats(p, scrut_ty)
                if len(alts) != 1:
                    raise Unsupported("match guard on an or-pattern")
                j = None
                for jj in range(k + 1, len(rust_arms)):
                    pj = rust_arms[jj][0]
                    aj = []
                    for p in pj:
                        aj += self.pats(p, scrut_ty)
                    if len(aj) == 1 and aj[0][0] == alts[0][0]:
                        j = jj
                        break
                if j is None:
                    raise Unsupported("match guard without a later arm of the same pattern")
                saved = dict(self.scope)
                self.scope.update(alts[0][1])
                gst, gc = self.cond(guard)
                if gst:
                    raise Unsupported("effectful match guard")
                sq = self.seq(body if body[0] == "block" else ("block", [], body), mode)
                gty = self.last_ty
                # the fall-through arm (it may be guarded itself: handled by a nested one-arm match)
                fpats, fguard, fbody = rust_arms[j]
                if fguard is not None:
                    raise Unsupported("two guarded arms of the same pattern")
                self.last_ty = None
                fsq = self.seq(fbody if fbody[0] == "block" else ("block", [], fbody), mode)
                self.scope = saved
                del rust_arms[j]
                if mty is None:
                    mty = gty or self.last_ty
                if mode == "unit":
                    arms.append(([alts[0][0]], [("ifs", gc, sq, fsq)]))
                else:
                    arms.append(([alts[0][0]], [("code", ("if", gc, sq, fsq))]))
                continue
            alts = []
            for p in pats:
                alts += self.pats(p, scrut_ty)
            binds = alts[0][1]
            for a in alts[1:]:
                if set(a[1]) != set(binds):
                    raise Unsupported("or-pattern alternatives bind different names")
            saved = dict(self.scope)
            self.scope.update(binds)
            if body[0] == "block":
                sq = self.seq(body, mode)
            else:
                sq = self.seq(("block", [], body), mode)
            self.scope = saved
            if mty is None and sq and sq[-1][0] in ("pure", "mon", "code"):
                mty = self.last_ty
            arms.append(([a[0] for a in alts], sq))
        return ("match", t, arms), mty

    def tr_return(self, e):
        raise Unsupported("return in expression position")

    # ------------------------------------------------------------------ statements
    def value_items(self, v):
        """IR items that end a value-producing sequence with `v`"""
        if v.ty is not None:
            self.last_ty = v.ty
        if v.kind == "pure":
            return v.stmts + [("pure", v.term)]
        if v.kind == "mon":
            return v.stmts + [("mon", v.term)]
        if v.kind == "code":
            return v.stmts + [("code", v.term)]
        if v.kind in ("unit", "mon_unit"):
            return v.stmts + [("pure", "()")]
        raise Unsupported("error value as the value of a block")

    def stmt_expr(self, e, mode_last=None):
        """an expression in statement position -> IR items"""
        k = e[0]
        if k == "return":
            if e[1] is None:
                return [("return", "()")]
            x = e[1]
            if x[0] == "call" and x[1][0] == "path" and x[1][1] == ["Err"]:
                v = self.tr(x[2][0])
                if v.kind != "fault":
                    raise Unsupported("Err of a computed value")
                return v.stmts + [("throw", v.term)]
            if x[0] == "path" and x[1] == ["None"]:
                return [("return", "none")]
            s, t, _v = self.atom_of(x)
            if self.sink:
                t = f"({self.sink_term()}, {t})"
            return s + [("return", t)]
        if k == "break":
            if len(e) > 1 and (not self.labels or self.labels[-1] != e[1]):
                raise Unsupported("break to a label that is not the innermost labeled block")
            return [("break",)]
        if k == "continue":
            return [("continue",)]
        if k == "if":
            st, c = self.cond(e[1])
            then = self.seq(e[2], "unit")
            els = self.seq(e[3], "unit") if e[3] else None
            return st + [("ifs", c, then, els)]
        if k == "match":
            v = self.tr_match(e, "unit")
            return v.stmts + [("code", v.term)]
        if k == "block":
            return self.seq(e, "unit")
        if k == "macro":
            v = self.tr_macro(e)
            if v.kind == "mon":
                return v.stmts + [("mon", v.term)]
            return v.stmts
        v = self.tr(e)
        if v.kind == "mon":
            return v.stmts + [("letm", "_", v.term)]
        if v.kind == "code":
            return v.stmts + [("letc", "_", v.term)]
        return v.stmts

    def seq(self, block, mode):
        """a block -> IR sequence.  mode 'value': ends in an item producing the block's value;
        'unit': a statement sequence"""
        if block[0] != "block":
            block = ("block", [], block)
        saved = dict(self.scope)
        out = []
        for st in block[1]:
            if self.stopped:
                break
            k = st[0]
            if k == "use":
                self.handle_use(st[1])
            elif k == "let":
                out += self.let_stmt(st)
            elif k == "expr":
                out += self.stmt_expr(st[1])
            elif k == "assign":
                out += self.assign_stmt(st)
            elif k == "for":
                self.labels.append(None)
                out += self.for_stmt(st)
                self.labels.pop()
            elif k == "labeled":
                # `'l: { .. break 'l; .. }`: a block that can be left early = a loop that runs once
                self.labels.append(st[1])
                body = self.seq(st[2], "unit")
                self.labels.pop()
                out += [("for", "_", "[()]", body)]
            else:
                raise Unsupported(f"statement {k}")
        tail = block[2]
        if self.stopped:
            self.scope = saved
            if not out or out[-1][0] not in ("return", "throw"):
                out.append(("return", f"({self.sink_term()}, ())") if self.trace else ("pure", "()"))
            return out
        if tail is not None:
            if tail[0] in ("return", "break", "continue"):
                out += self.stmt_expr(tail)
            elif mode == "unit":
                out += self.stmt_expr(tail)
            elif tail[0] == "if" and tail[3] is None:
                # `if c { .. }` as the last expression of a block of type ()
                out += self.stmt_expr(tail)
                out.append(("pure", "()"))
            else:
                out += self.value_items(self.tr(tail))
        elif mode == "value":
            if not out or out[-1][0] not in ("return", "throw", "break", "continue"):
                out.append(("pure", "()"))
        self.scope = saved
        return out

    def let_stmt(self, st):
        _, pat, init, els, mutable = st
        if init is None:
            raise Unsupported("let without initialiser")
        if els is not None:
            # let PAT = e else { diverge };
            s, t, v = self.atom_of(init)
            alts = self.pats(pat, v.ty)
            if len(alts) != 1:
                raise Unsupported("let-else with or-pattern")
            names = list(alts[0][1])
            els_seq = self.seq(els, "unit")
            self.scope.update(alts[0][1])
            tup = "(" + ", ".join(mangle(n) for n in names) + ")" if len(names) != 1 else mangle(names[0])
            code = ("match", t, [([alts[0][0]], [("pure", tup)]), (["_"], els_seq)])
            return s + [("letc", tup, code)]
        v = self.tr(init)
        alts = self.pats(pat, v.ty)
        if len(alts) != 1:
            raise Unsupported("or-pattern in let")
        ps, binds = alts[0]
        if mutable:
            self.mutables.add(pat[1])
        if v.kind == "mon_unit":
            if self.stopped:
                return v.stmts
            raise Unsupported("let of a unit effect")
        self.scope.update(binds)
        kw = "letmut" if mutable else "let"
        if v.kind == "pure":
            # a comparison bound to a name is a `bool` in Rust: decide it
            return v.stmts + [(kw + "p", ps, f"(decide {v.term})" if v.prop else v.term)]
        if v.kind == "mon":
            return v.stmts + [(kw + "m", ps, v.term)]
        if v.kind == "code":
            return v.stmts + [(kw + "c", ps, v.term)]
        raise Unsupported("let of a non-value")

    def assign_stmt(self, st):
        _, op, lhs, rhs = st
        if self.mutself and op == "=" and lhs == ("deref", ("path", ["self"])):
            s2, tv, _ = self.atom_of(rhs)
            return s2 + [("assign", "self", tv)]
        if self.mutself and lhs[0] == "field" and lhs[1] == ("path", ["self"]) and self.impl in STRUCTS:
            lean, fmap = STRUCTS[self.impl]
            f = lhs[2]
            if f not in fmap or fmap[f].startswith("@"):
                raise Unsupported(f"assignment to field {f}")
            if op == "=":
                s2, tv, _ = self.atom_of(rhs)
            elif op in ("+=", "-=", "*="):
                v = self.arith(op[0], lhs, rhs)
                s2, tv = self.atom(v)
            else:
                raise Unsupported(f"assignment operator {op}")
            return s2 + [("assign", "self", "{ self with " + fmap[f] + " := " + tv + " }")]
        if self.trace and op == "=" and lhs[0] == "field":
            base = self.tr(lhs[1])
            key = (base.ty, lhs[2])
            if key in EFFECT_FIELDS and not base.stmts:
                s2, tv, _ = self.atom_of(rhs)
                return s2 + [("assign", "trace_", f"trace_ ++ [{EFFECT_FIELDS[key].format(tv)}]")]
        if op == "=" and lhs[0] == "index" and lhs[1][0] == "path" and len(lhs[1][1]) == 1 and lhs[1][1][0] in self.mutables \
           and is_bytes(self.scope.get(lhs[1][1][0])):
            name = mangle(lhs[1][1][0])
            s1, ti, _ = self.atom_of(lhs[2])
            s2, tv, _ = self.atom_of(rhs)
            t = self.fresh()
            return s1 + s2 + [("letm", t, f"(Rs.setIdx {name} {ti} {tv})"), ("assign", name, t)]
        if lhs[0] != "path" or len(lhs[1]) != 1 or lhs[1][0] not in self.mutables:
            raise Unsupported("assignment to something other than a local `let mut`")
        name = mangle(lhs[1][0])
        if op == "=":
            s, t, v = self.atom_of(rhs)
            if self.scope.get(lhs[1][0]) in (None, "Option<?>") and v.ty:
                self.scope[lhs[1][0]] = v.ty
            return s + [("assign", name, t)]
        if op in ("+=", "-=", "*="):
            v = self.arith(op[0], lhs, rhs)
            s, t = self.atom(v)
            return s + [("assign", name, t)]
        raise Unsupported(f"assignment operator {op}")

    def for_stmt(self, st):
        _, pat, it, body = st
        it0 = it
        while it0[0] == "ref":
            it0 = it0[1]
        if it0[0] == "field" and it0[1] == ("path", ["self"]) and (self.impl, it0[2]) in FOR_EACH_ONCE and pat[0] == "pbind":
            saved = dict(self.scope)
            self.scope[pat[1]] = FOR_EACH_ONCE[(self.impl, it0[2])]
            sq = self.seq(body, "unit")
            self.scope = saved
            return sq
        v = self.tr(it)
        s, t = self.atom(v)
        if v.ty and v.ty.startswith("Enumerate<Vec<"):
            elem = generic_arg(generic_arg(v.ty, "Enumerate"), "Vec")
            if pat[0] != "ptuple" or len(pat[1]) != 2 or pat[1][0][0] != "pbind" or pat[1][1][0] != "pbind":
                raise Unsupported("pattern of an enumerate() loop")
            i, x = pat[1][0][1], pat[1][1][1]
            saved = dict(self.scope)
            self.scope[i] = "usize"
            self.scope[x] = norm_type(elem)
            sq = self.seq(body, "unit")
            self.scope = saved
            return s + [("for", f"({mangle(x)}, {mangle(i)})", f"{t}.zipIdx", sq)]
        raise Unsupported(f"for loop over {v.ty}")


# ---------------------------------------------------------------------- printing
def print_seq(seq, ind):
    lines = []
    pad = " " * ind
    if not seq:
        return [pad + "pure ()"]
    for it in seq:
        k = it[0]
        if k in ("letp", "letmutp"):
            lines.append(f"{pad}let {'mut ' if k == 'letmutp' else ''}{it[1]} := {it[2]}")
        elif k in ("letm", "letmutm"):
            lines.append(f"{pad}let {'mut ' if k == 'letmutm' else ''}{it[1]} ← {it[2]}")
        elif k in ("letc", "letmutc"):
            head = f"{pad}let {'mut ' if k == 'letmutc' else ''}{it[1]} ← "
            lines += print_code(it[2], ind, head)
        elif k == "assign":
            lines.append(f"{pad}{it[1]} := {it[2]}")
        elif k == "pure":
            lines.append(f"{pad}pure {it[1]}")
        elif k == "mon":
            lines.append(f"{pad}{it[1]}")
        elif k == "code":
            lines += print_code(it[1], ind, pad)
        elif k == "return":
            lines.append(f"{pad}return {it[1]}")
        elif k == "throw":
            lines.append(f"{pad}throw {it[1]}")
        elif k == "break":
            lines.append(f"{pad}break")
        elif k == "continue":
            lines.append(f"{pad}continue")
        elif k == "unless":
            lines.append(f"{pad}unless {it[1]} do")
            lines += print_seq(it[2], ind + 2)
        elif k == "ifs":
            lines.append(f"{pad}if {it[1]} then")
            lines += print_seq(it[2], ind + 2)
            if it[3] is not None:
                lines.append(f"{pad}else")
                lines += print_seq(it[3], ind + 2)
        elif k == "for":
            lines.append(f"{pad}for {it[1]} in {it[2]} do")
            lines += print_seq(it[3], ind + 2)
        else:
            raise Unsupported(f"IR item {k}")
    return lines


def print_code(code, ind, head):
    pad = " " * ind
    k = code[0]
    if k == "do":
        return [head + "do"] + print_seq(code[1], ind + 2)
    if k == "if":
        lines = [head + f"if {code[1]} then do"]
        lines += print_seq(code[2], ind + 4)
        lines.append(pad + "  else do")
        lines += print_seq(code[3], ind + 4)
        return lines
    if k == "match":
        lines = [head + f"match {code[1]} with"]
        for alts, sq in code[2]:
            lines.append(pad + "  | " + " | ".join(alts) + " => do")
            lines += print_seq(sq, ind + 6)
        return lines
    raise Unsupported(f"IR code {k}")


# ---------------------------------------------------------------------- types of signatures
def lean_type(t, impl=None):
    t = norm_type(t, impl)
    if t in INT_TYPES or t in NEWTYPES:
        return "Nat"
    if is_bytes(t):
        return "Bytes"
    if is_iter(t):
        return "(List Bytes)"
    if t == "bool":
        return "Bool"
    if t in STRUCTS:
        return STRUCTS[t][0]
    if t in ENUMS:
        return ENUMS[t][0]
    if t.startswith("Bound<"):
        return "Impl.Bound"
    if t == "TimeRange":
        return "(Option (Nat × Nat))"
    if t.startswith("Option<"):
        return f"(Option {lean_type(generic_arg(t, 'Option'), impl)})"
    if t.startswith("Result<"):
        return lean_type(generic_arg(t, "Result"), impl)
    if t.startswith("RangeInclusive<"):
        return "(Nat × Nat)"
    if t.startswith("implRangeBounds<"):
        return "(Impl.Bound × Impl.Bound)"
    if t.startswith("Result<(),"):
        return "Unit"
    if t.startswith("(") and t.endswith(")"):
        parts = split_tuple_type(t)
        if not parts:
            return "Unit"
        return "(" + " × ".join(lean_type(p, impl) for p in parts) + ")"
    if t == "Self" and impl:
        return lean_type(impl)
    raise Unsupported(f"type {t}")


def check_shapes(w):
    """the Rust definitions of the shared types must still have the shape the model's have"""
    for name, (lean, fmap) in STRUCTS.items():
        st = w.structs.get(name)
        if not st or st[0] != "named":
            raise Unsupported(f"struct {name} not found")
        fields = [f for f, _ in st[1]]
        for f in fmap:
            if f not in fields:
                raise Unsupported(f"struct {name} lost field {f}")
        if name in STRUCTS_EXACT and set(fields) != set(fmap):
            raise Unsupported(f"struct {name}: fields {sorted(fields)} differ from the model's {sorted(fmap)}")
    for name in NEWTYPES:
        st = w.structs.get(name)
        if not st or st[0] != "tuple" or len(st[1]) != 1:
            raise Unsupported(f"{name} is no longer a one-field tuple struct")
    for name, (lean, vmap) in ENUMS.items():
        vs = w.enums.get(name)
        if vs is None:
            raise Unsupported(f"enum {name} not found")
        if set(v for v, _, _ in vs) != set(vmap):
            raise Unsupported(f"enum {name}: variants differ from the model's")
        for v, kind, fs in vs:
            if len(fs) != ENUM_ARITY[name][v]:
                raise Unsupported(f"enum {name}::{v}: arity differs from the model's")
    for (ty, m), f in GETTERS.items():
        fn = w.fns.get((ty, m))
        if not fn:
            raise Unsupported(f"getter {ty}::{m} not found")
        body = parse_body(w.toks[fn[0]], fn[3])
        ok = (not body[1]) and body[2] is not None and body[2] == ("field", ("path", ["self"]), f)
        if not ok:
            raise Unsupported(f"{ty}::{m} is no longer the plain getter of .{f}")


def translate_one(w, generated, impl, fn, extra):
    """-> (lean name, lines).  Helper functions met on the way are translated first and
    appended to w.helper_defs"""
    name = lean_name(impl, fn.replace("const:", ""))
    if fn.startswith("const:"):
        c = w.consts.get((impl, fn[6:]))
        if not c:
            raise Unsupported("constant not found")
        tr = Tr(w, generated, impl, fn, [], c[1], const_ctx=True)
        v = tr.tr(c[2])
        if v.kind != "pure" or v.stmts:
            raise Unsupported("constant expression too complex")
        cty = "Bytes" if is_bytes(norm_type(c[1])) else "Nat"
        return name, [f"def {name} : {cty} := {v.term}"]
    info = w.fns.get((impl, fn))
    if not info:
        raise Unsupported("function not found")
    file, params, ret, rng = info
    body = parse_body(w.toks[file], rng)
    tr = Tr(w, generated, impl, fn, params, ret)
    sig = []
    pre = []
    if tr.trace:
        pre.append(("letmutp", "trace_", f"([] : List {TRACE_TYPE.get((impl, fn), 'CatchUp')})"))
    if tr.mutself:
        pre.append(("letmutp", "self", "self"))
    for p in params:
        if p[0] == "self":
            sig.append(f"(self : {lean_type(impl)})")
        elif p[0][0] == "pbind" and p[0][1] in SKIP_PARAMS:
            continue
        elif is_sink(norm_type(p[1], impl)):
            pre.append(("letmutp", mangle(p[0][1]), "([] : Bytes)"))
        elif is_file(norm_type(p[1], impl)):
            sig.append(f"({mangle(p[0][1])} : Bytes)")
            pre.append(("letmutp", mangle(p[0][1]), mangle(p[0][1])))
        else:
            sig.append(f"({mangle(p[0][1])} : {lean_type(p[1], impl)})")
            if is_iter(norm_type(p[1], impl)):
                pre.append(("letmutp", mangle(p[0][1]), mangle(p[0][1])))
    if extra:
        sig.append(extra)
    rty = lean_type(ret, impl) if ret else "Unit"
    sq = tr.seq(body, "value")
    if tr.sink:
        if tr.trace and tr.mutself:
            rty = f"(({lean_type(impl)} × List {TRACE_TYPE.get((impl, fn), 'CatchUp')}) × {rty})"
        elif tr.trace:
            rty = f"(List {TRACE_TYPE.get((impl, fn), 'CatchUp')} × {rty})"
        elif tr.mutself:
            rty = f"({lean_type(impl)} × {rty})"
        else:
            rty = f"(Bytes × {rty})"
        last = sq[-1]
        if last[0] == "pure":
            sq = sq[:-1] + [("pure", f"({tr.sink_term()}, {last[1]})")]
        elif last[0] == "mon":
            sq = sq[:-1] + [("letm", "ret_", last[1]), ("pure", f"({tr.sink_term()}, ret_)")]
        elif last[0] == "code":
            sq = sq[:-1] + [("letc", "ret_", last[1]), ("pure", f"({tr.sink_term()}, ret_)")]
        elif last[0] not in ("return", "throw"):
            raise Unsupported("shape of the function's last statement")
    sq = pre + sq
    return name, [f"def {name} " + " ".join(sig) + f" : R {rty} := do"] + print_seq(sq, 2)


def translate_all():
    w = World()
    w.helper_defs = []
    problems = []
    try:
        check_shapes(w)
    except Unsupported as ex:
        problems.append(("shapes", str(ex)))
    generated = {}
    for f, impl, fn, extra in TARGETS:
        if fn.startswith("const:"):
            generated[(impl, fn)] = None
        else:
            info = w.fns.get((impl, fn))
            generated[(impl, fn)] = info[2] if info else None
    defs = []
    for f, impl, fn, extra in TARGETS:
        name = lean_name(impl, fn.replace("const:", ""))
        n_before = len(w.helper_defs)
        try:
            nm, lines = translate_one(w, generated, impl, fn, extra)
            defs += w.helper_defs[n_before:]          # helpers first
            defs.append((nm, lines))
        except Unsupported as ex:
            del w.helper_defs[n_before:]
            problems.append((name, str(ex)))
    return defs, problems


def render(defs, problems):
    out = ["/- GENERATED by tools/rs2lean.py from /repo/src — do not edit.",
           "   A syntactic translation of the decision / arithmetic core (see the tool's header)."]
    for n, p in problems:
        out.append(f"   NOT TRANSLATED {n}: {p}")
    out += ["-/", "import BS.Impl.GenPrelude", "", "namespace BS.Gen", "open BS.Impl", ""]
    for name, lines in defs:
        out += lines
        out.append("")
    out.append("end BS.Gen")
    return "\n".join(out) + "\n"


def main():
    defs, problems = translate_all()
    text = render(defs, problems)
    if "--print" in sys.argv:
        sys.stdout.write(text)
    else:
        old = None
        if os.path.exists(OUT):
            with open(OUT) as f:
                old = f.read()
        if old != text:
            with open(OUT, "w") as f:
                f.write(text)
            print("rs2lean: Core.lean updated")
    for n, p in problems:
        print(f"rs2lean: not translated: {n}: {p}", file=sys.stderr)
    return 3 if problems else 0


if __name__ == "__main__":
    sys.exit(main())
