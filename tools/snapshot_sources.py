#!/usr/bin/env python3
"""Record the sha256 of every file under /repo/src as the tree the model was written against.
Run by hand after the model has been brought in line with a new /repo HEAD; never at check time."""
import hashlib, json, os, subprocess
REPO = "/repo"
out = {}
for root, _, files in os.walk(os.path.join(REPO, "src")):
    for fn in files:
        p = os.path.join(root, fn)
        out[os.path.relpath(p, REPO)] = hashlib.sha256(open(p, "rb").read()).hexdigest()
head = subprocess.run(["git", "-C", REPO, "rev-parse", "--short", "HEAD"], capture_output=True, text=True).stdout.strip()
json.dump({"head": head, "files": dict(sorted(out.items()))}, open("/verif/baseline/sources.json", "w"), indent=1)
print(len(out), "files at", head)
