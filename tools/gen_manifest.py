#!/usr/bin/env python3
"""writes MANIFEST.json from lib/props.py (level texts live next to the theorem lists)"""
import json, os, sys
VERIF = os.path.join(os.path.dirname(os.path.abspath(__file__)), "..")
sys.path.insert(0, os.path.join(VERIF, "lib"))
import props

NOTE = ("Trusted: Lean 4.33 kernel; axioms propext, Classical.choice, Quot.sound only (audited with #print axioms on every run, no native_decide/bv_decide/sorry); "
        "the statements in lean/BS/Spec.lean and lean/BS/Props; the hand-written model lean/BS/Impl is tied to /repo by the differential correspondence "
        "(bsrun drives the real library, the compiled Lean driver runs the model and the spec on the same op scripts, lib/judge.py compares) — that tie is sampling, not proof — "
        "by constants regenerated from the sources (tools/extract_consts.py), and for the decision/arithmetic core (seek.rs search areas and bounds, estimate.rs, "
        "index.rs line_pos/search bounds/in_gap/update, data.rs len/range/line_pos and the write path push_data, meta.rs write/read, push_line, the cache's process and catch-up, the open-time tail repair FileWithInlineMeta::new, n_lines_between: 40 functions and constants) by TRANSLATION: tools/rs2lean.py rewrites "
        "those Rust functions to Lean on every run (BS/Generated/Core.lean, checked arithmetic, same control flow) and BS/Proofs/GenTie.lean proves each equal to the model's "
        "function; trusted there: the translator (a syntactic parser/printer) and the std vocabulary in BS/Impl/GenPrelude.lean. Modelled, not verified: OS file semantics, Rust std "
        "(binary_search, chunks_exact, str::find), no I/O errors, 64-bit usize, overflow-checked profile. See DESIGN.md §10.")

checks = []
for pid in sorted(props.PROPS):
    cfg = props.PROPS[pid]
    checks.append({
        "property_id": pid,
        "quick_cmd": f"./check.py {pid} --tier quick",
        "thorough_cmd": f"./check.py {pid} --tier thorough",
        "evidence_file": f"evidence/{pid}.json",
        "replay_cmd_template": "./check.py replay {path}",
        "engine": "lean-model+bsrun",
        "level_claimed": {"category": "proof", "text": cfg.get("level_text", "see DESIGN.md §7"), "design_ref": f"DESIGN.md §7 {pid}, §14"},
        "level_note": NOTE,
        "technique": cfg.get("technique", "Lean 4 theorems about an executable model; model tied to the code by (a) a Rust-to-Lean translation of the decision/arithmetic core regenerated on every run and proved equal to the model (BS/Proofs/GenTie.lean) and (b) differential correspondence implementation/model/specification on generated op scripts" if cfg.get("ties") else "Lean 4 theorems about an executable model + differential correspondence model/implementation/spec"),
    })
m = {
    "version": 1,
    "setup_cmd": "./setup.sh",
    "hooks": {"guard": "byteseries_verif", "enable": "no source hooks are needed: everything is observed through the public API and the bytes of the files; the harness builds /repo as a path dependency in the dev profile",
              "baseline_off_cmd": "cd /repo && cargo test --workspace --no-fail-fast --offline", "source_commits": [], "add_only": True},
    "engines": [
        {"name": "lean-model", "path": "lean/", "serves_properties": sorted(props.PROPS), "kind_free_text": "Lean 4 specification, executable model of the implementation, theorems, compiled line-protocol driver"},
        {"name": "bsrun", "path": "harness/", "serves_properties": sorted(props.PROPS), "kind_free_text": "Rust harness driving the real library from op scripts (public API + file-level faults)"},
        {"name": "rs2lean", "path": "tools/rs2lean.py", "serves_properties": sorted(p for p in props.PROPS if props.PROPS[p].get("ties")), "kind_free_text": "translator: Rust subset (tools/rsparse.py) to Lean 4 definitions (lean/BS/Generated/Core.lean), regenerated from /repo/src on every run; tie theorems in lean/BS/Proofs/GenTie.lean; function-level counterexample search lean/GenDiff.lean"},
        {"name": "judge", "path": "check.py", "serves_properties": sorted(props.PROPS), "kind_free_text": "generators, differential comparison under per-property projections, axiom audit, evidence"},
    ],
    "checks": checks,
    "not_applicable": [],
    "notes": "Genuine defects found on the pinned tree were repaired by fix: commits in /repo (list: KNOWN_FINDINGS.txt, DESIGN.md §14); the three that were not repaired (marker-tail, stale-cache-create, zero-bucket) are listed there as known findings.",
}
with open(os.path.join(VERIF, "MANIFEST.json"), "w") as f:
    json.dump(m, f, indent=1)
print("MANIFEST.json written,", len(checks), "checks")
